(* C09, step 1: the older schema [older keep E] (Impl/Older.v) is again an environment the generator could have
   emitted: it satisfies [env_ok] whenever [E] does.  Also the two structural facts used everywhere else:
   [older_length] and [older_nth]. *)
From Coq Require Import ZArith List Bool Lia ZifyBool.
From PBC Require Import Base.CInt Gen.LeafC Impl.Desc Impl.Mem Impl.Enc Impl.WF Impl.Unpack Impl.Canon Impl.Older
     GenModel.Ranges Proofs.LookupGen Proofs.ScanRec.
Import ListNotations.
Local Open Scope Z_scope.

(* ---------- structure of [older] *)
Lemma nth_error_combine_seq : forall A (l : list A) s d,
  nth_error (combine (seq s (length l)) l) d = option_map (fun x => ((s + d)%nat, x)) (nth_error l d).
Proof.
  intros A. induction l as [|x l IH]; intros s d.
  - destruct d; reflexivity.
  - cbn [length seq combine]. destruct d as [|d]; cbn [nth_error option_map].
    + rewrite Nat.add_0_r. reflexivity.
    + rewrite IH. replace (S s + d)%nat with (s + S d)%nat by lia. reflexivity.
Qed.

Lemma older_length : forall keep E, length (older keep E) = length E.
Proof.
  intros keep E. unfold older. rewrite map_length, combine_length, seq_length. lia.
Qed.

Lemma older_nth : forall keep E d,
  nth_error (older keep E) d = option_map (drop_fields (keep d)) (nth_error E d).
Proof.
  intros keep E d. unfold older. rewrite nth_error_map, nth_error_combine_seq.
  destruct (nth_error E d); reflexivity.
Qed.

Lemma older_nth_some : forall keep E d md, nth_error E d = Some md ->
  nth_error (older keep E) d = Some (drop_fields (keep d) md).
Proof. intros keep E d md H. rewrite older_nth, H. reflexivity. Qed.

Lemma drop_fields_fields : forall k md, md_fields (drop_fields k md) = filter k (md_fields md).
Proof. reflexivity. Qed.
Lemma drop_fields_oneofs : forall k md, md_n_oneofs (drop_fields k md) = md_n_oneofs md.
Proof. reflexivity. Qed.

(* ---------- strictly increasing lists and sublists *)
Lemma incr_to_incrb : forall vs, incr vs -> incrb vs = true.
Proof.
  induction vs as [|v t IH]; intros H; [reflexivity|]. cbn [incrb]. destruct t as [|w t']; [reflexivity|].
  cbn [incr] in H. destruct H as [H1 H2]. apply andb_true_iff. split; [lia | apply IH; exact H2].
Qed.

Lemma incr_tail : forall v t, incr (v :: t) -> incr t.
Proof. intros v t H. cbn [incr] in H. destruct t; [exact I | tauto]. Qed.

Lemma incr_cons_intro : forall v t, (forall w, In w t -> v < w) -> incr t -> incr (v :: t).
Proof.
  intros v t H Hi. cbn [incr]. destruct t as [|w t']; [exact I|].
  split; [apply H; left; reflexivity | exact Hi].
Qed.

Lemma incr_filter : forall (k : field -> bool) fs, incr (map f_id fs) -> incr (map f_id (filter k fs)).
Proof.
  intros k. induction fs as [|f fs IH]; intros H; [exact I|].
  cbn [map] in H. cbn [filter]. pose proof (IH (incr_tail _ _ H)) as IH'.
  destruct (k f); [|exact IH'].
  cbn [map]. apply incr_cons_intro; [|exact IH'].
  intros w Hw. apply (incr_lower (map f_id fs) (f_id f) w H).
  apply in_map_iff in Hw. destruct Hw as (g & <- & Hg). apply filter_In in Hg. apply in_map. tauto.
Qed.

Lemma forallb_filter : forall A (P k : A -> bool) l, forallb P l = true -> forallb P (filter k l) = true.
Proof.
  intros A P k l H. rewrite forallb_forall in *. intros x Hx. apply filter_In in Hx. apply H. tauto.
Qed.

Lemma filter_length_le : forall A (k : A -> bool) l, (length (filter k l) <= length l)%nat.
Proof. intros A k. induction l as [|x l IH]; cbn [filter length]; [lia|]. destruct (k x); cbn [length]; lia. Qed.

Lemma ranges_refl : forall rs : list IntRange,
  forallb (fun p : IntRange * IntRange => (start_value (fst p) =? start_value (snd p)) && (orig_index (fst p) =? orig_index (snd p)))
          (combine rs rs) = true.
Proof.
  induction rs as [|r rs IH]; [reflexivity|]. cbn [combine forallb fst snd]. rewrite !Z.eqb_refl, IH. reflexivity.
Qed.

(* ---------- one descriptor *)
Lemma drop_desc_ok : forall nenv k md, desc_ok nenv md = true -> desc_ok nenv (drop_fields k md) = true.
Proof.
  intros nenv k md D. unfold desc_ok in D. rewrite !andb_true_iff in D.
  destruct D as [[[[[[Hi Hb] Hfo] Hsub] Hl] _] Hz].
  unfold desc_ok. rewrite drop_fields_fields, drop_fields_oneofs.
  rewrite !andb_true_iff. repeat split.
  - apply incr_to_incrb. apply incr_filter. apply incrb_incr. exact Hi.
  - rewrite forallb_forall in *. intros id Hid. apply Hb.
    apply in_map_iff in Hid. destruct Hid as (g & <- & Hg). apply filter_In in Hg. apply in_map. tauto.
  - apply forallb_filter. exact Hfo.
  - apply forallb_filter. exact Hsub.
  - rewrite map_length in *. pose proof (filter_length_le _ k (md_fields md)). lia.
  - unfold drop_fields. cbn [md_ranges md_n_ranges].
    destruct (mk_ranges (map f_id (filter k (md_fields md)))) as [rs n]. cbn [fst snd].
    rewrite Z.eqb_refl, Nat.eqb_refl, ranges_refl. reflexivity.
  - apply forallb_filter. exact Hz.
Qed.

(* ---------- the environment *)
Theorem older_env_ok : forall (keep : nat -> field -> bool) (E : env),
  env_ok E = true -> env_ok (older keep E) = true.
Proof.
  intros keep E EO. unfold env_ok in *. rewrite forallb_forall in *. intros md' Hin.
  apply In_nth_error in Hin. destruct Hin as (d & Hd). rewrite older_nth in Hd.
  destruct (nth_error E d) as [md|] eqn:Ed; [|discriminate Hd]. cbn [option_map] in Hd. inversion Hd; subst md'.
  rewrite older_length. apply drop_desc_ok. apply EO. eapply nth_error_In; eauto.
Qed.

(* C17 (b): an abstract interleaving theorem.  Threads issue atomic operations;
   an operation of thread t may read the shared read-only region and t's own
   region, and may write only t's own region.  Then, for every schedule, each
   thread observes exactly the results of running alone, and no two threads
   ever touch a common location one of them writes (no data race). *)
From Coq Require Import List Arith Bool Lia.
Import ListNotations.

Section Interleave.
Variable loc val res : Type.
Variable owner : loc -> option nat.        (* None: shared read-only (descriptors, defaults, allocator record) *)

Definition heap := loc -> val.

(* an operation: given the heap, a list of writes and a result *)
Record op := { run : heap -> list (loc * val) * res }.

Variable loc_eqb : loc -> loc -> bool.
Hypothesis loc_eqb_spec : forall a b, loc_eqb a b = true <-> a = b.

Fixpoint apply_writes (h : heap) (ws : list (loc * val)) : heap :=
  match ws with
  | [] => h
  | (l, v) :: t => apply_writes (fun x => if loc_eqb x l then v else h x) t
  end.

(* footprint discipline of thread t *)
Definition visible (t : nat) (l : loc) : Prop := owner l = None \/ owner l = Some t.
Definition respects (t : nat) (o : op) : Prop :=
  (forall h1 h2, (forall l, visible t l -> h1 l = h2 l) -> run o h1 = run o h2) /\
  (forall h l v, In (l, v) (fst (run o h)) -> owner l = Some t).

(* a schedule: which thread performs its next operation *)
Fixpoint exec (progs : nat -> list op) (sched : list nat) (h : heap) (out : nat -> list res)
  : heap * (nat -> list res) * (nat -> list op) :=
  match sched with
  | [] => (h, out, progs)
  | t :: s =>
      match progs t with
      | [] => exec progs s h out
      | o :: rest =>
          let '(ws, r) := run o h in
          exec (fun u => if Nat.eqb u t then rest else progs u) s (apply_writes h ws)
               (fun u => if Nat.eqb u t then out u ++ [r] else out u)
      end
  end.

(* thread t alone *)
Fixpoint solo (p : list op) (h : heap) (out : list res) : heap * list res :=
  match p with
  | [] => (h, out)
  | o :: rest => let '(ws, r) := run o h in solo rest (apply_writes h ws) (out ++ [r])
  end.

Lemma apply_writes_other : forall ws h l, (forall v, ~ In (l, v) ws) -> apply_writes h ws l = h l.
Proof.
  induction ws as [|[l' v'] ws IH]; intros h l H; [reflexivity|].
  cbn [apply_writes]. rewrite IH.
  - destruct (loc_eqb l l') eqn:E; [|reflexivity].
    apply loc_eqb_spec in E. subst l'. exfalso. apply (H v'). left. reflexivity.
  - intros v Hin. apply (H v). right. exact Hin.
Qed.

Lemma apply_writes_agree : forall ws h1 h2 l, h1 l = h2 l -> apply_writes h1 ws l = apply_writes h2 ws l.
Proof.
  induction ws as [|[l' v'] ws IH]; intros h1 h2 l H; [exact H|].
  cbn [apply_writes]. apply IH. destruct (loc_eqb l l'); [reflexivity | exact H].
Qed.

(* how many operations of t the schedule will perform *)
Fixpoint count_t (t : nat) (sched : list nat) : nat :=
  match sched with [] => 0 | u :: s => (if Nat.eqb u t then 1 else 0) + count_t t s end.

Theorem interleaving_invisible : forall sched progs h out t hs os,
  (forall u, Forall (respects u) (progs u)) ->
  (forall l, visible t l -> h l = hs l) ->
  out t = os ->
  let '(h', out', progs') := exec progs sched h out in
  let k := Nat.min (count_t t sched) (length (progs t)) in
  let '(hs', os') := solo (firstn k (progs t)) hs os in
  (forall l, visible t l -> h' l = hs' l) /\ out' t = os' /\ progs' t = skipn k (progs t).
Proof.
  induction sched as [|u s IH]; intros progs h out t hs os HR Hh Ho; subst os.
  - cbn. auto.
  - cbn [exec count_t].
    destruct (progs u) as [|o rest] eqn:Ep.
    + (* thread u has nothing left *)
      specialize (IH progs h out t hs (out t) HR Hh eq_refl).
      destruct (Nat.eqb u t) eqn:Eut.
      * apply Nat.eqb_eq in Eut. subst u. rewrite Ep in *. cbn [length] in *.
        rewrite Nat.min_0_r in *. exact IH.
      * cbn [Nat.add]. exact IH.
    + destruct (run o h) as [ws r] eqn:Er.
      pose proof (HR u) as HRu. rewrite Ep in HRu. inversion HRu as [|? ? [Hdep Hwr] HRrest]; subst.
      set (progs2 := fun x => if Nat.eqb x u then rest else progs x).
      set (out2 := fun x => if Nat.eqb x u then out x ++ [r] else out x).
      assert (HR2 : forall x, Forall (respects x) (progs2 x)).
      { intros x. unfold progs2. destruct (Nat.eqb x u) eqn:E; [|apply HR].
        apply Nat.eqb_eq in E. subst x. exact HRrest. }
      destruct (Nat.eqb u t) eqn:Eut.
      * (* t itself moves: same step as in the solo run *)
        apply Nat.eqb_eq in Eut. subst u. rewrite Ep. cbn [length].
        assert (Erun : run o hs = (ws, r)).
        { rewrite <- Er. symmetry. apply Hdep. exact Hh. }
        specialize (IH progs2 (apply_writes h ws) out2 t (apply_writes hs ws) (out t ++ [r]) HR2).
        assert (E2 : progs2 t = rest) by (unfold progs2; rewrite Nat.eqb_refl; reflexivity).
        rewrite E2 in IH.
        replace (Nat.min (1 + count_t t s) (S (length rest))) with (S (Nat.min (count_t t s) (length rest))) by lia.
        cbn [firstn solo skipn]. rewrite Erun.
        apply IH.
        -- intros l Hl. apply apply_writes_agree. apply Hh. exact Hl.
        -- unfold out2. rewrite Nat.eqb_refl. reflexivity.
      * (* another thread moves: invisible to t *)
        cbn [Nat.add].
        specialize (IH progs2 (apply_writes h ws) out2 t hs (out t) HR2).
        assert (E2 : progs2 t = progs t).
        { unfold progs2. rewrite Nat.eqb_sym, Eut. reflexivity. }
        rewrite E2 in IH. apply IH.
        -- intros l Hl. rewrite apply_writes_other; [apply Hh; exact Hl|].
           intros v Hin. assert (Hw : owner l = Some u) by (apply (Hwr h l v); rewrite Er; exact Hin).
           apply Nat.eqb_neq in Eut. destruct Hl as [Hl | Hl]; congruence.
        -- unfold out2. rewrite Nat.eqb_sym, Eut. reflexivity.
Qed.

End Interleave.

(* The specification-level parser reads every canonical encoding back, part 2: values.  The payload a canonical cell
   denotes (Impl/Denote.v) is read back by [cell_of] as that cell; the concatenated element encodings of a packed
   record are read back by [packed_elems] as the elements. *)
From Coq Require Import ZArith List Bool Lia ZifyBool.
From PBC Require Import Base.CInt Base.Bits Spec.Wire Spec.WireMsg Spec.WireRaw Impl.Desc Impl.Mem Impl.Enc Impl.Pack Impl.WF
     Impl.Unpack Impl.Canon Impl.Denote Impl.SpecParse.
From PBC Require Proofs.EncLemmas Proofs.LeafDec Proofs.CellRT.
From PBC Require Import Proofs.WholeMsg Proofs.SpecCanon1.
Import ListNotations.
Local Open Scope Z_scope.

Ltac Zify.zify_post_hook ::= Z.div_mod_to_equations.

(* ---------------------------------------------------------------- scalars *)
Definition is_varint (t : ftype) : bool :=
  match t with
  | TInt32 | TSint32 | TInt64 | TSint64 | TUint32 | TUint64 | TBool | TEnum => true
  | _ => false
  end.

Lemma s32_mod : forall w, 0 <= w < 4294967296 -> s32 w mod 4294967296 = w.
Proof. intros w H. unfold s32, sw. cbv zeta. destruct (w mod 4294967296 <? 2147483648); lia. Qed.

Lemma s64_mod : forall w, 0 <= w < 18446744073709551616 -> s64 w mod 18446744073709551616 = w.
Proof. intros w H. unfold s64, sw. cbv zeta. destruct (w mod 18446744073709551616 <? 9223372036854775808); lia. Qed.

Lemma s32_zero : forall w, 0 <= w < 4294967296 -> (s32 w =? 0) = (w =? 0).
Proof. intros w H. unfold s32, sw. cbv zeta. destruct (w mod 4294967296 <? 2147483648) eqn:El; lia. Qed.

Lemma scalar_var : forall t w, is_varint t = true -> canon_word t w = true ->
  exists v, scalar_payload t w = PVar v /\ 0 <= v < two64 /\ 0 <= v < 128 ^ Z.of_nat (elem_width t) /\
            scalar_of t (PVar v) = Some w.
Proof.
  intros t w Hv Hc.
  assert (Hbig : 128 ^ Z.of_nat 10 = 1180591620717411303424) by reflexivity.
  destruct t; try discriminate Hv; unfold canon_word in Hc; cbn [is4] in Hc; cbn [scalar_payload elem_width];
    (eexists; split; [reflexivity|]); cbn [scalar_of]; unfold two32, two64; try rewrite Hbig.
  - (* int32 *)
    assert (Hw : 0 <= w < 4294967296) by lia. rewrite (u32_small w Hw).
    destruct (CellRT.sext32_range w Hw) as [Hr Hm]. rewrite Hm. repeat split; lia.
  - (* sint32 *)
    assert (Hw : 0 <= w < 4294967296) by lia.
    pose proof (CellRT.zigzag32_range' _ (s32_range w)) as Hz.
    rewrite (Z.mod_small (zigzag 32 (s32 w))) by lia. rewrite LeafDec.unzigzag_zigzag. rewrite (s32_mod w Hw).
    repeat split; lia.
  - (* int64 *)
    assert (Hw : 0 <= w < 18446744073709551616) by lia. rewrite (u64_small w Hw). repeat split; lia.
  - (* sint64 *)
    assert (Hw : 0 <= w < 18446744073709551616) by lia.
    pose proof (CellRT.zigzag64_range' _ (s64_range w)) as Hz.
    rewrite LeafDec.unzigzag_zigzag. rewrite (s64_mod w Hw). repeat split; lia.
  - (* uint32 *)
    assert (Hw : 0 <= w < 4294967296) by lia. rewrite (u32_small w Hw). rewrite (Z.mod_small w) by lia.
    repeat split; lia.
  - (* uint64 *)
    assert (Hw : 0 <= w < 18446744073709551616) by lia. rewrite (u64_small w Hw). repeat split; lia.
  - (* bool *)
    change (128 ^ Z.of_nat 1) with 128.
    assert (Hw : w = 0 \/ w = 1) by lia. destruct Hw as [-> | ->]; vm_compute; repeat split; congruence.
  - (* enum *)
    assert (Hw : 0 <= w < 4294967296) by lia. rewrite (u32_small w Hw).
    destruct (CellRT.sext32_range w Hw) as [Hr Hm]. rewrite Hm. repeat split; lia.
Qed.

Lemma scalar_reads : forall t w, is_scalar t = true -> canon_word t w = true ->
  scalar_of t (scalar_payload t w) = Some w.
Proof.
  intros t w Hs Hc. destruct (is_varint t) eqn:Hv.
  - destruct (scalar_var t w Hv Hc) as [v [Hp [_ [_ Hr]]]]. rewrite Hp. exact Hr.
  - destruct t; try discriminate Hs; try discriminate Hv; unfold canon_word in Hc; cbn [is4] in Hc;
      cbn [scalar_payload scalar_of]; f_equal; first [apply u32_small | apply u64_small]; lia.
Qed.

Lemma canon_cell_word : forall rec f w, is_scalar (f_type f) = true ->
  canon_cell rec f (VWord w) = canon_word (f_type f) w.
Proof. intros rec f w Hs. unfold canon_cell. destruct (f_type f); try discriminate Hs; reflexivity. Qed.

Lemma takewhile_nz_id : forall s, forallb char_ok s = true -> takewhile_nz s = s.
Proof.
  induction s as [|c t IH]; intros H; [reflexivity|].
  cbn [forallb] in H. apply andb_true_iff in H. destruct H as [Hc Ht].
  unfold takewhile_nz in *. unfold char_ok in Hc. replace (c =? 0) with false by lia. rewrite (IH Ht). reflexivity.
Qed.

Lemma key_nonempty : forall id wt, 1 <= zlen (key id wt).
Proof.
  intros. unfold key. pose proof (varint_nonempty (id * 8 + wt)) as H.
  destruct (varint (id * 8 + wt)); [congruence|]. rewrite zlen_cons'. pose proof (zlen_nonneg' _ l). lia.
Qed.

(* ---------------------------------------------------------------- one present value *)
Section Cell.
Variable E : env.
Variable sub : nat -> list Z -> option msg.
Variable N : Z.

(* what the reading of sub-messages must already deliver *)
Definition sub_ok (v : sval) : Prop :=
  match v with
  | VMsg (Some m') =>
      canon_msg E m' = true -> forall b', pack_msg E m' = Ok b' -> zlen b' < N -> sub (m_desc m') b' = Some m'
  | _ => True
  end.

Lemma cell_of_scalar : forall f p old, is_scalar (f_type f) = true ->
  cell_of E sub f p old = match scalar_of (f_type f) p with Some w => Some (VWord w) | None => None end.
Proof. intros f p old Hs. unfold cell_of. destruct (f_type f); try discriminate Hs; reflexivity. Qed.

Lemma cell_reads : forall f v a, 0 < f_id f < 536870912 ->
  canon_cell (canon_msg E) f v = true ->
  pk_required (pack_msg E) f v = Ok a -> zlen a <= N -> N < 2147483648 -> sub_ok v ->
  cell_of E sub f (cell_payload E f v) None = Some v.
Proof.
  intros f v a Hid Hc Hp Hz HN Hsub.
  destruct (is_scalar (f_type f)) eqn:Hs.
  { destruct (canon_cell_scalar _ _ _ Hs Hc) as [w ->].
    rewrite canon_cell_word in Hc by exact Hs.
    rewrite cell_of_scalar by exact Hs. rewrite cell_payload_scalar by exact Hs.
    rewrite scalar_reads by assumption. reflexivity. }
  destruct (cell_conforms E f v a Hid Hc Hp ltac:(lia)) as [Ha _].
  revert Hc Hp Ha. unfold canon_cell, cell_of, cell_payload.
  destruct (f_type f) eqn:Et; try discriminate Hs; intros Hc Hp Ha.
  - (* string *)
    destruct v as [w|[| |s]|len p|p]; try discriminate Hc.
    rewrite takewhile_nz_id by exact Hc. reflexivity.
  - (* bytes *)
    destruct v as [w|p|len [| |s]|p]; try discriminate Hc.
    + apply Z.eqb_eq in Hc. subst len. reflexivity.
    + apply andb_true_iff in Hc. destruct Hc as [Hc _]. apply andb_true_iff in Hc. destruct Hc as [Hl0 Hl].
      apply Z.eqb_eq in Hl. apply Z.ltb_lt in Hl0. subst len.
      destruct s as [|c s']; [unfold zlen in Hl0; cbn [length] in Hl0; lia|]. reflexivity.
  - (* embedded message *)
    destruct v as [w|p|len p|[m'|]]; try discriminate Hc.
    apply andb_true_iff in Hc. destruct Hc as [Hcm Hd]. apply Nat.eqb_eq in Hd.
    unfold pk_required in Hp. rewrite Et in Hp.
    destruct (pack_msg E m') as [b'|e] eqn:Eb; cbn [bind] in Hp; [|discriminate Hp].
    unfold sub_bytes in *. rewrite Eb in *.
    assert (Hlt : zlen b' < N).
    { rewrite Ha in Hz. unfold enc_rec in Hz. cbn [fst snd wt_of enc_payload] in Hz.
      rewrite !zlen_app' in Hz. pose proof (key_nonempty (f_id f) 2).
      pose proof (zlen_nonneg' _ (varint (wlen b'))). lia. }
    cbn [sub_ok] in Hsub. rewrite <- Hd. rewrite (Hsub Hcm b' Eb Hlt). reflexivity.
Qed.

End Cell.

(* ---------------------------------------------------------------- packed records *)
Lemma concat_cons_app : forall A (x : list A) l, concat (x :: l) = x ++ concat l.
Proof. reflexivity. Qed.

Lemma packed_varints_enc : forall t ws fuel, is_varint t = true -> forallb (canon_word t) ws = true ->
  (length (concat (map (fun w => enc_payload (scalar_payload t w)) ws)) <= fuel)%nat ->
  packed_varints fuel t (concat (map (fun w => enc_payload (scalar_payload t w)) ws)) = Some (map VWord ws).
Proof.
  intros t ws. induction ws as [|w ws IH]; intros fuel Hv Hc Hf.
  - cbn [map concat]. destruct fuel; reflexivity.
  - cbn [forallb] in Hc. apply andb_true_iff in Hc. destruct Hc as [Hw Hws].
    destruct (scalar_var t w Hv Hw) as [v [Hp [Hv64 [Hvw Hr]]]].
    cbn [map] in *. rewrite concat_cons_app in *. rewrite Hp in *. cbn [enc_payload] in *.
    set (rest := concat (map (fun w0 : Z => enc_payload (scalar_payload t w0)) ws)) in *.
    rewrite app_length in Hf.
    pose proof (varint_nonempty v) as Hne.
    destruct (varint v ++ rest) as [|x tl] eqn:Ebs.
    { destruct (varint v); [congruence | discriminate Ebs]. }
    assert (Hl : (1 <= length (varint v))%nat) by (destruct (varint v); [congruence | cbn [length]; lia]).
    destruct fuel as [|k]; [lia|].
    cbn [packed_varints]. rewrite <- Ebs.
    assert (Hrd : read_varint_raw (elem_width t) (varint v ++ rest) = Some (v, varint v, rest)).
    { unfold varint. apply (rvr_varint_n (elem_width t)); [exact Hvw | | lia |].
      - destruct t; cbn [elem_width]; lia.
      - destruct t; cbn [elem_width]; lia. }
    rewrite Hrd. replace (v <? two64) with true by lia. rewrite Hr.
    rewrite (IH k Hv Hws) by lia. reflexivity.
Qed.

Lemma firstn_len_app : forall A (a rest : list A) n, length a = n -> firstn n (a ++ rest) = a.
Proof.
  intros A a rest n <-. rewrite firstn_app, Nat.sub_diag, firstn_all. cbn [firstn]. apply app_nil_r.
Qed.

Lemma skipn_len_app : forall A (a rest : list A) n, length a = n -> skipn n (a ++ rest) = rest.
Proof.
  intros A a rest n <-. rewrite skipn_app, Nat.sub_diag, skipn_all. reflexivity.
Qed.

Lemma chunks_le : forall n (g : Z -> Z) ws,
  chunks n (length ws) (concat (map (fun w => le_n n (g w)) ws)) = map (fun w => le_n n (g w)) ws.
Proof.
  intros n g ws. induction ws as [|w ws IH]; [reflexivity|].
  cbn [map length chunks]. rewrite concat_cons_app.
  rewrite (firstn_len_app _ _ _ n (le_n_len n (g w))). rewrite (skipn_len_app _ _ _ n (le_n_len n (g w))).
  rewrite IH. reflexivity.
Qed.

Lemma concat_le_length : forall n (g : Z -> Z) ws,
  length (concat (map (fun w => le_n n (g w)) ws)) = (length ws * n)%nat.
Proof.
  intros n g ws. induction ws as [|w ws IH]; [reflexivity|].
  cbn [map length]. rewrite concat_cons_app, app_length, le_n_len, IH. lia.
Qed.

Lemma map_le_val : forall n (g : Z -> Z) ws, (forall w, In w ws -> 0 <= g w < 256 ^ Z.of_nat n) ->
  map (fun c => VWord (le_val c)) (map (fun w => le_n n (g w)) ws) = map (fun w => VWord (g w)) ws.
Proof.
  intros n g ws H. rewrite map_map. apply map_ext_in. intros w Hw. rewrite le_val_le_n by (apply H; exact Hw).
  reflexivity.
Qed.

Lemma packed_words : forall t ws, is_scalar t = true -> forallb (canon_word t) ws = true ->
  packed_elems t (concat (map (fun w => enc_payload (scalar_payload t w)) ws)) = Some (map VWord ws).
Proof.
  intros t ws Hs Hc. destruct (is_varint t) eqn:Hv.
  { assert (Hpe : forall bs, packed_elems t bs = packed_varints (length bs) t bs)
      by (intros bs; destruct t; try discriminate Hv; reflexivity).
    rewrite Hpe. apply packed_varints_enc; [exact Hv | exact Hc | lia]. }
  rewrite forallb_forall in Hc.
  assert (H32 : forall w, In w ws -> is4 t = true -> 0 <= u32 w < 256 ^ Z.of_nat 4 /\ u32 w = w).
  { intros w Hw H4. specialize (Hc w Hw). unfold canon_word in Hc. rewrite H4 in Hc.
    change (256 ^ Z.of_nat 4) with 4294967296.
    destruct t; try discriminate Hv; try discriminate H4; rewrite u32_small by lia; lia. }
  assert (H64 : forall w, In w ws -> is4 t = false -> 0 <= u64 w < 256 ^ Z.of_nat 8 /\ u64 w = w).
  { intros w Hw H4. specialize (Hc w Hw). unfold canon_word in Hc. rewrite H4 in Hc.
    change (256 ^ Z.of_nat 8) with 18446744073709551616.
    destruct t; try discriminate Hv; try discriminate H4; rewrite u64_small by lia; lia. }
  destruct t; try discriminate Hs; try discriminate Hv; cbn [scalar_payload enc_payload packed_elems];
    unfold zlen; rewrite concat_le_length; rewrite Nat.div_mul by lia; rewrite chunks_le;
    first [progress (replace (Z.of_nat (length ws * 4) mod 4 =? 0) with true by lia) | progress (replace (Z.of_nat (length ws * 8) mod 8 =? 0) with true by lia)];
    f_equal;
    (rewrite map_le_val by (intros w Hw; first [apply (H32 w Hw); reflexivity | apply (H64 w Hw); reflexivity]));
    apply map_ext_in; intros w Hw; f_equal; first [apply (H32 w Hw); reflexivity | apply (H64 w Hw); reflexivity].
Qed.

Lemma canon_cells_words : forall rec f l, is_scalar (f_type f) = true -> forallb (canon_cell rec f) l = true ->
  exists ws, l = map VWord ws /\ forallb (canon_word (f_type f)) ws = true.
Proof.
  intros rec f l Hs. induction l as [|x t IH]; intros Hc.
  - exists []. split; reflexivity.
  - cbn [forallb] in Hc. apply andb_true_iff in Hc. destruct Hc as [Hx Ht].
    destruct (canon_cell_scalar _ _ _ Hs Hx) as [w ->]. rewrite canon_cell_word in Hx by exact Hs.
    destruct (IH Ht) as [ws [-> Hws]]. exists (w :: ws). split; [reflexivity|].
    cbn [forallb]. rewrite Hx, Hws. reflexivity.
Qed.

Lemma packed_reads : forall E rec f l, is_scalar (f_type f) = true -> forallb (canon_cell rec f) l = true ->
  packed_elems (f_type f) (concat (map (fun v => enc_payload (cell_payload E f v)) l)) = Some l.
Proof.
  intros E rec f l Hs Hc. destruct (canon_cells_words rec f l Hs Hc) as [ws [-> Hws]].
  rewrite map_map.
  rewrite (map_ext (fun w => enc_payload (cell_payload E f (VWord w))) (fun w => enc_payload (scalar_payload (f_type f) w)))
    by (intros w; rewrite cell_payload_scalar by exact Hs; reflexivity).
  apply packed_words; assumption.
Qed.

(* Leaf tie, model side: the extracted regenerated leaf functions on the same
   case file as harness/c/leaf_driver.c.  usage: leaf_model <cases> [be]
   Every function's *_ok twin is evaluated too; a false flag prints UBFLAG. *)
open BinNums
open Model_util

let u64 = CInt.u64
let s32 = CInt.s32
let s64 = CInt.s64
let u32 = CInt.u32
let hx s = z_of_hex s
let r z = print_string (hex_of_z_width (u64 z) 16); print_char '\n'
let okf fn b = if not b then print_string ("UBFLAG " ^ fn ^ " ")

let () =
  let ic = open_in Sys.argv.(1) in
  let be = Array.length Sys.argv > 2 && Sys.argv.(2) = "be" in
  (try while true do
      let line = input_line ic in
      let t = Array.of_list (List.filter (fun s -> s <> "") (String.split_on_char ' ' line)) in
      if Array.length t > 0 && t.(0).[0] <> '#' then begin
        let fn = t.(0) in
        let pk name (res : coq_Z * coq_Z list) ok =
          okf name ok;
          let (n, out) = res in
          let n = int_of_z n in
          let rec take k l = if k = 0 then [] else match l with [] -> Z0 :: take (k-1) [] | x :: tl -> x :: take (k-1) tl in
          Printf.printf "%d %s\n" n (hex_of_bytes (take (min n 32) out)) in
        match fn with
        | "get_tag_size" -> okf fn (LeafC.get_tag_size_ok (hx t.(1))); r (LeafC.get_tag_size (hx t.(1)))
        | "uint32_size" -> okf fn (LeafC.uint32_size_ok (hx t.(1))); r (LeafC.uint32_size (hx t.(1)))
        | "int32_size" -> okf fn (LeafC.int32_size_ok (s32 (hx t.(1)))); r (LeafC.int32_size (s32 (hx t.(1))))
        | "zigzag32" -> okf fn (LeafC.zigzag32_ok (s32 (hx t.(1)))); r (LeafC.zigzag32 (s32 (hx t.(1))))
        | "sint32_size" -> okf fn (LeafC.sint32_size_ok (s32 (hx t.(1)))); r (LeafC.sint32_size (s32 (hx t.(1))))
        | "uint64_size" -> okf fn (LeafC.uint64_size_ok (hx t.(1))); r (LeafC.uint64_size (hx t.(1)))
        | "zigzag64" -> okf fn (LeafC.zigzag64_ok (s64 (hx t.(1)))); r (LeafC.zigzag64 (s64 (hx t.(1))))
        | "sint64_size" -> okf fn (LeafC.sint64_size_ok (s64 (hx t.(1)))); r (LeafC.sint64_size (s64 (hx t.(1))))
        | "get_type_min_size" -> r (LeafC.get_type_min_size (hx t.(1)))
        | "sizeof_elt_in_repeated_array" -> r (LeafC.sizeof_elt_in_repeated_array (hx t.(1)))
        | "is_packable_type" -> r (LeafC.is_packable_type (hx t.(1)))
        | "unzigzag32" -> okf fn (LeafC.unzigzag32_ok (hx t.(1))); r (LeafC.unzigzag32 (hx t.(1)))
        | "unzigzag64" -> okf fn (LeafC.unzigzag64_ok (hx t.(1))); r (LeafC.unzigzag64 (hx t.(1)))
        | "uint32_pack" -> pk fn (LeafC.uint32_pack (u32 (hx t.(1))) []) (LeafC.uint32_pack_ok (u32 (hx t.(1))) [])
        | "int32_pack" -> pk fn (LeafC.int32_pack (u32 (hx t.(1))) []) (LeafC.int32_pack_ok (u32 (hx t.(1))) [])
        | "sint32_pack" -> pk fn (LeafC.sint32_pack (s32 (hx t.(1))) []) (LeafC.sint32_pack_ok (s32 (hx t.(1))) [])
        | "uint64_pack" -> pk fn (LeafC.uint64_pack (hx t.(1)) []) (LeafC.uint64_pack_ok (hx t.(1)) [])
        | "sint64_pack" -> pk fn (LeafC.sint64_pack (s64 (hx t.(1))) []) (LeafC.sint64_pack_ok (s64 (hx t.(1))) [])
        | "fixed32_pack" ->
          if be then pk fn (LeafC_BE.fixed32_pack (u32 (hx t.(1))) []) (LeafC_BE.fixed32_pack_ok (u32 (hx t.(1))) [])
          else pk fn (LeafC.fixed32_pack (u32 (hx t.(1))) []) (LeafC.fixed32_pack_ok (u32 (hx t.(1))) [])
        | "fixed64_pack" ->
          if be then pk fn (LeafC_BE.fixed64_pack (hx t.(1)) []) (LeafC_BE.fixed64_pack_ok (hx t.(1)) [])
          else pk fn (LeafC.fixed64_pack (hx t.(1)) []) (LeafC.fixed64_pack_ok (hx t.(1)) [])
        | "boolean_pack" -> pk fn (LeafC.boolean_pack (s32 (hx t.(1))) []) (LeafC.boolean_pack_ok (s32 (hx t.(1))) [])
        | "tag_pack" -> pk fn (LeafC.tag_pack (u32 (hx t.(1))) []) (LeafC.tag_pack_ok (u32 (hx t.(1))) [])
        | "max_b128_numbers" -> let d = bytes_of_hex t.(2) in okf fn (LeafC.max_b128_numbers_ok (hx t.(1)) d); r (LeafC.max_b128_numbers (hx t.(1)) d)
        | "parse_uint32" -> let d = bytes_of_hex t.(2) in okf fn (LeafC.parse_uint32_ok (hx t.(1)) d); r (LeafC.parse_uint32 (hx t.(1)) d)
        | "parse_int32" -> let d = bytes_of_hex t.(2) in okf fn (LeafC.parse_int32_ok (hx t.(1)) d); r (LeafC.parse_int32 (hx t.(1)) d)
        | "parse_uint64" -> let d = bytes_of_hex t.(2) in okf fn (LeafC.parse_uint64_ok (hx t.(1)) d); r (LeafC.parse_uint64 (hx t.(1)) d)
        | "parse_boolean" -> let d = bytes_of_hex t.(2) in okf fn (LeafC.parse_boolean_ok (hx t.(1)) d); r (LeafC.parse_boolean (hx t.(1)) d)
        | "scan_varint" -> let d = bytes_of_hex t.(2) in okf fn (LeafC.scan_varint_ok (hx t.(1)) d); r (LeafC.scan_varint (hx t.(1)) d)
        | "parse_fixed_uint32" -> let d = bytes_of_hex t.(1) in
          if be then (okf fn (LeafC_BE.parse_fixed_uint32_ok d); r (LeafC_BE.parse_fixed_uint32 d))
          else (okf fn (LeafC.parse_fixed_uint32_ok d); r (LeafC.parse_fixed_uint32 d))
        | "parse_fixed_uint64" -> let d = bytes_of_hex t.(1) in
          if be then (okf fn (LeafC_BE.parse_fixed_uint64_ok d); r (LeafC_BE.parse_fixed_uint64 d))
          else (okf fn (LeafC.parse_fixed_uint64_ok d); r (LeafC.parse_fixed_uint64 d))
        | "parse_tag_and_wiretype" ->
          let d = bytes_of_hex t.(2) in
          okf fn (LeafC.parse_tag_and_wiretype_ok (hx t.(1)) d Z0 Z0);
          let ((used, tag), wt) = LeafC.parse_tag_and_wiretype (hx t.(1)) d Z0 Z0 in
          let u = int_of_z used in
          Printf.printf "%d %d %d\n" u (if u = 0 then 0 else int_of_z tag) (if u = 0 then 0 else int_of_z wt)
        | "scan_length_prefixed_data" ->
          let d = bytes_of_hex t.(2) in
          okf fn (LeafC.scan_length_prefixed_data_ok (hx t.(1)) d Z0);
          let (rv, pref) = LeafC.scan_length_prefixed_data (hx t.(1)) d Z0 in
          let rv = int_of_z rv in
          Printf.printf "%d %d\n" rv (if rv = 0 then 0 else int_of_z pref)
        | "count_packed_elements" ->
          let d = bytes_of_hex t.(3) in
          okf fn (LeafC.count_packed_elements_ok (hx t.(1)) (hx t.(2)) d Z0);
          let (rv, cnt) = LeafC.count_packed_elements (hx t.(1)) (hx t.(2)) d Z0 in
          let rv = int_of_z rv in
          Printf.printf "%d %d\n" rv (if rv = 0 then 0 else int_of_z cnt)
        | "int_range_lookup" ->
          let nr = hx t.(1) in
          let rs = List.map (fun e -> match String.split_on_char ':' e with
              | [a; b] -> { CInt.start_value = s32 (hx a); CInt.orig_index = hx b }
              | _ -> failwith "range") (String.split_on_char ',' t.(2)) in
          let v = s32 (hx t.(3)) in
          okf fn (LeafC.int_range_lookup_ok nr rs v);
          r (LeafC.int_range_lookup nr rs v)
        | _ -> print_string ("ERR unknown " ^ fn ^ "\n")
      end
    done with End_of_file -> ());
  close_in ic

(* Normalisation of what the parser returns: the representation choices that do not reach the wire --
   the capacity of a repeated field's array (the parser allocates what the scan counted, which can exceed
   what it then stores: a packed bool written with multi-byte varints) and an implicit-presence field that
   was explicitly sent with its zero value (kept as sent, e.g. a heap copy of the empty string) -- are
   replaced by the normal form of Impl/Canon.v.  Serialisation does not see the difference
   (Proofs/NormPack.v), so the round-trip theorem applies to every message whose normalisation is canonical. *)
From Coq Require Import ZArith List Bool.
From PBC Require Import Base.CInt Gen.LeafC Impl.Desc Impl.Mem Impl.Enc Impl.Unpack.
Import ListNotations.
Local Open Scope Z_scope.

Section Norm.
Variable E : env.

Definition norm_val (rec : msg -> msg) (v : sval) : sval :=
  match v with VMsg (Some m) => VMsg (Some (rec m)) | _ => v end.

Definition norm_slot (rec : msg -> msg) (f : field) (s : slot) : slot :=
  match s with
  | SRep n cap arr =>
      match arr with
      | Some l => SRep n n (Some (map (norm_val rec) l))
      | None => s
      end
  | SOne h v =>
      match f_label f with
      | LNone => match zeroish f v with
                 | Ok true => SOne h (init_cell f)
                 | _ => SOne h (norm_val rec v)
                 end
      | _ => SOne h (norm_val rec v)
      end
  | SUnion g => s
  end.

Definition norm_slots (rec : msg -> msg) : list field -> list slot -> list slot :=
  fix go (fs : list field) (ss : list slot) {struct ss} : list slot :=
    match fs, ss with
    | f :: fs', s :: ss' => norm_slot rec f s :: go fs' ss'
    | _, _ => ss
    end.

Fixpoint norm_msg (m : msg) : msg :=
  match m with
  | Msg d slots unions unk =>
      match nth_error E d with
      | None => m
      | Some md =>
          Msg d (norm_slots norm_msg (md_fields md) slots)
                (map (fun cv : Z * sval => (fst cv, norm_val norm_msg (snd cv))) unions) unk
      end
  end.

End Norm.

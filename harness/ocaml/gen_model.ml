(* gen_model <fd_dump.txt | ->
   Reads the schema dump of harness/GENFORMAT.md section 1, runs the extracted model of protoc-gen-c
   (coq/GenModel/Gen.v) on it and prints the descriptor dump of section 2 exactly as
   harness/c/desc_dump.c prints it for the code the real plugin generates.

   Lines that desc_dump computes from the compiled struct layout are not modelled: off_ok and
   sizeof_ok are printed as 1.  MI is the struct after message_init on zeroed memory (the __INIT
   value, or all zero when the descriptor has no init function); MU is `MU FAIL` for a message with a
   required field without default (the library refuses the empty input) and else always the __INIT value: an
   unpacked empty message is supposed to look like an initialised one, whichever way the library
   initialises it.

   After each block come the lookup lines ML MK / EL EK / SL (coq/GenModel/LookupModel.v: the library's
   by-name and by-number searches run on the model's descriptors, with the keys desc_dump derives from
   the descriptor) and, for services, SS SI SX (coq/GenModel/Service.v: the generated stubs, <svc>__init
   and protobuf_c_service_destroy). *)
open BinNums
open Datatypes
open Model_util
open Gen

(* ------------------------------------------------------------------ conversions *)

let str_of_bytes (s : string) : str =
  let r = ref [] in
  for i = String.length s - 1 downto 0 do r := z_of_int (Char.code s.[i]) :: !r done;
  !r

let string_of_str (l : str) : string =
  let b = Buffer.create 32 in
  List.iter (fun z -> Buffer.add_char b (Char.chr ((int_of_z z) land 255))) l;
  Buffer.contents b

let hex_of_string (s : string) : string =
  let b = Buffer.create (2 * String.length s) in
  String.iter (fun c -> Buffer.add_string b (Printf.sprintf "%02x" (Char.code c))) s;
  Buffer.contents b

let unhex (h : string) : string =
  let n = String.length h / 2 in
  String.init n (fun i -> Char.chr (hexval h.[2 * i] * 16 + hexval h.[2 * i + 1]))

(* "s:<hex>" -> bytes *)
let parse_s (tok : string) : string =
  if String.length tok >= 2 && String.sub tok 0 2 = "s:" then unhex (String.sub tok 2 (String.length tok - 2))
  else failwith ("not a string token: " ^ tok)

let parse_s_opt (tok : string) : string option = if tok = "NULL" then None else Some (parse_s tok)

(* decimal of any size, optional leading '-' *)
let z_of_decimal (s : string) : coq_Z =
  let neg = String.length s > 0 && s.[0] = '-' in
  let ten = z_of_int 10 in
  let acc = ref Z0 in
  String.iteri (fun i c ->
      if i = 0 && neg then ()
      else match c with
        | '0' .. '9' -> acc := BinInt.Z.add (BinInt.Z.mul !acc ten) (z_of_int (Char.code c - 48))
        | _ -> failwith ("bad number: " ^ s)) s;
  if neg then BinInt.Z.opp !acc else !acc

let bool_tok t = match t with "0" -> false | "1" -> true | _ -> failwith ("bad boolean: " ^ t)
let opt_bool_tok t = if t = "-" then None else Some (bool_tok t)

(* ------------------------------------------------------------------ section 1 parser *)

type tmsg = { t_head : string list; mutable t_oneofs : str list; mutable t_fields : pfield list }
type tenum = { e_name : str; mutable e_values : (str * coq_Z) list }
type tsvc = { s_name : str; mutable s_methods : pmethod list }
type tfile = { f_head : string list; mutable f_msgs : tmsg list; mutable f_enums : tenum list;
               mutable f_svcs : tsvc list }

let ptype_of = function
  | "DOUBLE" -> PDouble | "FLOAT" -> PFloat | "INT64" -> PInt64 | "UINT64" -> PUint64 | "INT32" -> PInt32
  | "FIXED64" -> PFixed64 | "FIXED32" -> PFixed32 | "BOOL" -> PBool | "STRING" -> PString | "GROUP" -> PGroup
  | "MESSAGE" -> PMessage | "BYTES" -> PBytes | "UINT32" -> PUint32 | "ENUM" -> PEnum
  | "SFIXED32" -> PSfixed32 | "SFIXED64" -> PSfixed64 | "SINT32" -> PSint32 | "SINT64" -> PSint64
  | t -> failwith ("bad type: " ^ t)

let plabel_of = function
  | "OPT" -> POptional | "REQ" -> PRequired | "REP" -> PRepeated | t -> failwith ("bad label: " ^ t)

let optmode_of = function
  | "-" -> OptUnset | "SPEED" -> OptSpeed | "CODE_SIZE" -> OptCodeSize | "LITE_RUNTIME" -> OptLiteRuntime
  | t -> failwith ("bad optimize_for: " ^ t)

let parse_default (tok : string) : pdefault =
  if String.length tok >= 2 && String.sub tok 0 2 = "x:" then
    PDBits (z_of_hex (String.sub tok 2 (String.length tok - 2)))
  else if String.length tok >= 2 && String.sub tok 0 2 = "s:" then PDStr (str_of_bytes (parse_s tok))
  else PDInt (z_of_decimal tok)

let parse_field (a : string list) : pfield =
  match a with
  | [name; number; label; typ; type_name; oneof; packed; deprecated; sab; has_default; default; p3opt] ->
    { pf_name = str_of_bytes (parse_s name);
      pf_number = z_of_decimal number;
      pf_label = plabel_of label;
      pf_type = ptype_of typ;
      pf_type_name = str_of_bytes (parse_s type_name);
      pf_oneof = (let k = int_of_string oneof in if k < 0 then None else Some (nat_of_int k));
      pf_packed = opt_bool_tok packed;
      pf_deprecated = bool_tok deprecated;
      pf_string_as_bytes = bool_tok sab;
      pf_default = (if bool_tok has_default then Some (parse_default default) else None);
      pf_proto3_optional = bool_tok p3opt }
  | _ -> failwith "FLD: wrong number of tokens"

let split_line (l : string) : string list = String.split_on_char ' ' l

let parse_dump (text : string) : pfile list =
  let files = ref [] in
  let cur : tfile option ref = ref None in
  let cur_msg : tmsg option ref = ref None in
  let cur_enum : tenum option ref = ref None in
  let cur_svc : tsvc option ref = ref None in
  let file () = match !cur with Some f -> f | None -> failwith "line outside FILE" in
  List.iteri (fun ln line ->
      if line <> "" then
        try
          match split_line line with
          | "FILE" :: a ->
            if List.length a <> 10 then failwith "FILE: wrong number of tokens";
            let f = { f_head = a; f_msgs = []; f_enums = []; f_svcs = [] } in
            files := f :: !files; cur := Some f; cur_msg := None; cur_enum := None; cur_svc := None
          | ["ENDFILE"] -> cur := None
          | "MSG" :: a ->
            if List.length a <> 8 then failwith "MSG: wrong number of tokens";
            let m = { t_head = a; t_oneofs = []; t_fields = [] } in
            (file ()).f_msgs <- m :: (file ()).f_msgs; cur_msg := Some m
          | ["ONEOF"; _; name] ->
            (match !cur_msg with
             | Some m -> m.t_oneofs <- str_of_bytes (parse_s name) :: m.t_oneofs
             | None -> failwith "ONEOF outside MSG")
          | "FLD" :: a ->
            (match !cur_msg with
             | Some m -> m.t_fields <- parse_field a :: m.t_fields
             | None -> failwith "FLD outside MSG")
          | ["ENUM"; name; _] ->
            let e = { e_name = str_of_bytes (parse_s name); e_values = [] } in
            (file ()).f_enums <- e :: (file ()).f_enums; cur_enum := Some e
          | ["EV"; name; number] ->
            (match !cur_enum with
             | Some e -> e.e_values <- (str_of_bytes (parse_s name), z_of_decimal number) :: e.e_values
             | None -> failwith "EV outside ENUM")
          | ["SVC"; name; _; _] ->
            let s = { s_name = str_of_bytes (parse_s name); s_methods = [] } in
            (file ()).f_svcs <- s :: (file ()).f_svcs; cur_svc := Some s
          | ["MTH"; name; inp; outp] ->
            (match !cur_svc with
             | Some s -> s.s_methods <- { pmt_name = str_of_bytes (parse_s name);
                                          pmt_input = str_of_bytes (parse_s inp);
                                          pmt_output = str_of_bytes (parse_s outp) } :: s.s_methods
             | None -> failwith "MTH outside SVC")
          | _ -> failwith "unknown line"
        with Failure msg -> failwith (Printf.sprintf "line %d: %s: %s" (ln + 1) msg line))
    (String.split_on_char '\n' text);
  let build_msg (m : tmsg) : pmsg =
    match m.t_head with
    | [full; _nf; _no; nested; _nogen; base; gp; gi] ->
      { pm_full_name = str_of_bytes (parse_s full);
        pm_is_nested = bool_tok nested;
        pm_base_field_name = str_of_bytes (parse_s base);
        pm_gen_pack_helpers = opt_bool_tok gp;
        pm_gen_init_helpers = opt_bool_tok gi;
        pm_oneofs = List.rev m.t_oneofs;
        pm_fields = List.rev m.t_fields }
    | _ -> failwith "MSG" in
  let build_file (f : tfile) : pfile =
    match f.f_head with
    | [name; package; syntax; cpkg; nogen; cstr; uofn; gp; gi; opt] ->
      { pfl_name = str_of_bytes (parse_s name);
        pfl_package = str_of_bytes (parse_s package);
        pfl_syntax = z_of_decimal syntax;
        pfl_c_package = (match parse_s_opt cpkg with None -> None | Some s -> Some (str_of_bytes s));
        pfl_no_generate = bool_tok nogen;
        pfl_const_strings = bool_tok cstr;
        pfl_use_oneof_field_name = bool_tok uofn;
        pfl_gen_pack_helpers = bool_tok gp;
        pfl_gen_init_helpers = bool_tok gi;
        pfl_optimize_for = optmode_of opt;
        pfl_messages = List.rev_map build_msg f.f_msgs;
        pfl_enums = List.rev_map (fun e -> { pe_full_name = e.e_name; pe_values = List.rev e.e_values }) f.f_enums;
        pfl_services =
          List.rev_map (fun s -> { ps_full_name = s.s_name; ps_methods = List.rev s.s_methods }) f.f_svcs }
    | _ -> failwith "FILE" in
  List.rev_map build_file !files

(* ------------------------------------------------------------------ section 2 printer *)

let put_str (o : str option) : string =
  match o with None -> "NULL" | Some s -> "s:" ^ hex_of_string (string_of_str s)

let label_name = function GRequired -> "REQ" | GOptional -> "OPT" | GRepeated -> "REP" | GNone -> "NONE"

let type_name = function
  | GInt32 -> "INT32" | GSint32 -> "SINT32" | GSfixed32 -> "SFIXED32" | GInt64 -> "INT64" | GSint64 -> "SINT64"
  | GSfixed64 -> "SFIXED64" | GUint32 -> "UINT32" | GFixed32 -> "FIXED32" | GUint64 -> "UINT64"
  | GFixed64 -> "FIXED64" | GFloat -> "FLOAT" | GDouble -> "DOUBLE" | GBool -> "BOOL" | GEnum -> "ENUM"
  | GString -> "STRING" | GBytes -> "BYTES" | GMessage -> "MESSAGE"

(* desc_dump's elem_layout: size of one element of the member *)
let elem_size = function
  | GInt32 | GSint32 | GSfixed32 | GUint32 | GFixed32 | GFloat | GBool | GEnum -> 4
  | GInt64 | GSint64 | GSfixed64 | GUint64 | GFixed64 | GDouble | GString | GMessage -> 8
  | GBytes -> 16

let quant_name = function
  | GQNone -> "N" | GQHas -> "H" | GQCount -> "K" | GQCase g -> "C" ^ string_of_int (int_of_nat g)

let word (z : coq_Z) : string = hex_of_z_width z 16

(* a C string ends at its first NUL *)
let c_strlen_cut (s : string) : string =
  match String.index_opt s '\000' with Some i -> String.sub s 0 i | None -> s

let put_default (gf : gfield) : string =
  match gf.gf_default with
  | None -> "-"
  | Some (GDWord w) -> "w:" ^ word w
  | Some (GDString s) -> "s:" ^ hex_of_string (c_strlen_cut (string_of_str s))
  | Some GDEmptyString ->
    (* on a BYTES field (proto3 string_as_bytes) the real dump reads a ProtobufCBinaryData out of the
       one byte of protobuf_c_empty_string: nothing sensible to print *)
    (match gf.gf_type with GString -> "s:" | _ -> "b:?")
  | Some (GDBytes (len, data)) ->
    (* desc_dump prints len bytes of the array; when the compiler made the array shorter than the
       schema's default (trigraphs) that runs past the array's NUL into what follows it: zeros are
       assumed *)
    let n = int_of_z len in
    let arr = string_of_str data in
    let avail = String.length arr in
    "b:" ^ hex_of_string (if n <= avail then String.sub arr 0 n else arr ^ String.make (n - avail) '\000')

let put_cell = function
  | GCWord w -> "W" ^ word w
  | GCStringNull -> "TN"
  | GCStringDefault -> "TD"
  | GCBytes (len, d) -> Printf.sprintf "B%d%s" (int_of_z len) (if d then "D" else "N")
  | GCMessageNull -> "GN"
  | GCRepeatedNull -> "RN"
  | GCUnion -> "U"

let state_line (prefix : string) (m : gmsg) (st : gfield_init list) : string =
  let toks = List.map (fun (i : gfield_init) ->
      match i.gi_cell with
      | GCUnion -> "U"
      | c -> (match i.gi_quant with None -> "-" | Some n -> string_of_int (int_of_z n)) ^ "/" ^ put_cell c) st in
  let groups = List.mapi (fun g case ->
      let usize = List.fold_left (fun acc (gf : gfield) ->
          match gf.gf_quant with
          | GQCase k when int_of_nat k = g -> max acc (elem_size gf.gf_type)
          | _ -> acc) 0 m.gm_fields in
      Printf.sprintf "%d:%s" (int_of_z case) (String.make (2 * min usize 16) '0')) m.gm_oneof_case_init in
  prefix ^ " " ^ String.concat "," toks ^ "|" ^ String.concat "," groups

let name_key (o : str option) : string = match o with None -> "" | Some s -> string_of_str s

(* ------------------------------------------------------------------ lookup keys (as desc_dump.c) *)

let dedupe (l : 'a list) : 'a list =
  List.rev (List.fold_left (fun acc x -> if List.mem x acc then acc else x :: acc) [] l)

(* for every existing name n: n, n+"x", n without its last character, n with its last character +1 and
   -1 (a C string: cut at a NUL); then "" and "~"; first occurrences only *)
let name_keys (names : string list) : string list =
  let of_name n =
    let len = String.length n in
    [n; n ^ "x"] @
    (if len = 0 then [] else
       let last d = c_strlen_cut (String.sub n 0 (len - 1) ^
                                  String.make 1 (Char.chr ((Char.code n.[len - 1] + d) land 255))) in
       [String.sub n 0 (len - 1); last 1; last (-1)]) in
  dedupe (List.concat_map of_name names @ [""; "~"])

(* for every existing number v: v, v+1, v-1; then the fixed keys; converted to the parameter type
   (unsigned / int, 32 bits); first occurrences only *)
let number_keys (as_unsigned : bool) (numbers : int list) : int list =
  let conv x =
    let u = x land 0xFFFFFFFF in
    if as_unsigned || u < 0x80000000 then u else u - 0x100000000 in
  dedupe (List.map conv (List.concat_map (fun v -> [v; v + 1; v - 1]) numbers
                         @ [0; 1; -1; 2147483647; -2147483648; 536870911; 4294967295]))

let index_out (o : nat option) : int = match o with Some n -> int_of_nat n | None -> -1
let some_names (l : str option list) : string list =
  List.filter_map (fun o -> match o with Some s -> Some (string_of_str s) | None -> None) l

let () =
  let path = if Array.length Sys.argv > 1 then Sys.argv.(1) else "-" in
  let text =
    let ic = if path = "-" then stdin else open_in_bin path in
    let b = Buffer.create 65536 in
    (try while true do Buffer.add_channel b ic 1 done with End_of_file -> ());
    Buffer.contents b in
  let files = parse_dump text in
  (* the harness compiles the generated code with -std=c99 / -std=c11: trigraphs are replaced *)
  let out = gen_all true files in
  let svc_code = Service.gen_all_svc_code files in
  let buf = Buffer.create 65536 in
  let pr fmt = Printf.bprintf buf fmt in
  (* blocks sorted by name (NULL = ""), ties (CODE_SIZE) in the order of the C symbols *)
  let by_key key sym l =
    List.stable_sort (fun a b -> compare (name_key (key a), string_of_str (sym a))
                         (name_key (key b), string_of_str (sym b))) l in
  let msgs = by_key (fun m -> m.gm_name) (fun m -> m.gm_sym) out.go_msgs in
  let enums = by_key (fun e -> e.ge_name) (fun e -> e.ge_sym) out.go_enums in
  let svcs = by_key (fun s -> s.gs_name) (fun s -> s.gs_sym) out.go_svcs in
  let msg_tbl = Hashtbl.create 64 and enum_tbl = Hashtbl.create 64 in
  List.iter (fun m -> Hashtbl.replace msg_tbl (string_of_str m.gm_sym) m.gm_name) out.go_msgs;
  List.iter (fun e -> Hashtbl.replace enum_tbl (string_of_str e.ge_sym) e.ge_name) out.go_enums;
  let resolve tbl sym =
    match Hashtbl.find_opt tbl (string_of_str sym) with Some n -> put_str n | None -> "?unresolved" in
  let put_ranges tag rs =
    List.iter (fun (r : CInt.coq_IntRange) ->
        pr "%s %d %d\n" tag (int_of_z r.CInt.start_value) (int_of_z r.CInt.orig_index)) rs in
  let put_indices tag = function
    | None -> pr "%s NULL\n" tag
    | Some l -> pr "%s%s\n" tag (String.concat "" (List.map (fun z -> " " ^ string_of_int (int_of_z z)) l)) in
  List.iter (fun m ->
      pr "MD %s %s %s %s %d %d %d 1\n" (put_str m.gm_name) (put_str m.gm_short_name) (put_str m.gm_c_name)
        (put_str m.gm_package_name) (List.length m.gm_fields) (int_of_z m.gm_n_field_ranges)
        (if m.gm_has_init then 1 else 0);
      List.iteri (fun i gf ->
          let desc = match gf.gf_descriptor with
            | None -> "-"
            | Some sym -> (match gf.gf_type with
                | GMessage -> resolve msg_tbl sym
                | GEnum -> resolve enum_tbl sym
                | _ -> "?") in
          pr "MF %d %s %d %s %s %s %d %s %s 1\n" i (put_str gf.gf_name) (int_of_z gf.gf_id)
            (label_name gf.gf_label) (type_name gf.gf_type) (quant_name gf.gf_quant) (int_of_z gf.gf_flags)
            desc (put_default gf)) m.gm_fields;
      put_ranges "MR" m.gm_field_ranges;
      put_indices "MN" m.gm_fields_sorted_by_name;
      pr "%s\n" (state_line "MI" m (init_state m));
      (* protobuf_c_message_unpack of an empty input fails iff there is a required field whose
         descriptor has no default_value *)
      if List.exists (fun gf -> gf.gf_label = GRequired && gf.gf_default = None) m.gm_fields then pr "MU FAIL\n"
      else pr "%s\n" (state_line "MU" m m.gm_init);
      List.iter (fun k -> pr "ML s:%s %d\n" (hex_of_string k)
                    (index_out (LookupModel.msg_field_by_name m (str_of_bytes k))))
        (name_keys (some_names (List.map (fun gf -> gf.gf_name) m.gm_fields)));
      List.iter (fun k -> pr "MK %d %d\n" k (index_out (LookupModel.msg_field_by_number m (z_of_int k))))
        (number_keys true (List.map (fun gf -> int_of_z gf.gf_id) m.gm_fields))) msgs;
  List.iter (fun e ->
      pr "ED %s %s %s %s %d %d %d\n" (put_str e.ge_name) (put_str e.ge_short_name) (put_str e.ge_c_name)
        (put_str e.ge_package_name) (List.length e.ge_values) (int_of_z e.ge_n_value_names)
        (int_of_z e.ge_n_value_ranges);
      List.iteri (fun i v ->
          pr "EV %d %s %s %d\n" i (put_str v.gev_name) (put_str v.gev_c_name) (int_of_z v.gev_value)) e.ge_values;
      (match e.ge_values_by_name with
       | None -> pr "EN NULL\n"
       | Some l -> List.iter (fun (n, i) -> pr "EN %s %d\n" (put_str (Some n)) (int_of_z i)) l);
      put_ranges "ER" e.ge_value_ranges;
      List.iter (fun k -> pr "EL s:%s %d\n" (hex_of_string k)
                    (index_out (LookupModel.enum_value_by_name e (str_of_bytes k))))
        (name_keys (match e.ge_values_by_name with
             | None -> []
             | Some l -> List.map (fun (n, _) -> string_of_str n) l));
      List.iter (fun k -> pr "EK %d %d\n" k (index_out (LookupModel.enum_value_by_number e (z_of_int k))))
        (number_keys false (List.map (fun v -> int_of_z v.gev_value) e.ge_values))) enums;
  List.iter (fun s ->
      pr "SD %s %s %s %s %d\n" (put_str s.gs_name) (put_str s.gs_short_name) (put_str s.gs_c_name)
        (put_str s.gs_package) (List.length s.gs_methods);
      List.iteri (fun i mt ->
          pr "SM %d %s %s %s\n" i (put_str mt.gmt_name) (resolve msg_tbl mt.gmt_input)
            (resolve msg_tbl mt.gmt_output)) s.gs_methods;
      put_indices "SN" s.gs_method_indices_by_name;
      List.iter (fun k -> pr "SL s:%s %d\n" (hex_of_string k)
                    (index_out (LookupModel.svc_method_by_name s (str_of_bytes k))))
        (name_keys (some_names (List.map (fun mt -> mt.gmt_name) s.gs_methods)));
      (* the generated service code.  The harness installs, through <UC>__INIT(prefix), for every struct
         member the handler that records the member's position in the struct, then calls the stubs in
         the order of their definitions with three recognisable pointers. *)
      (match List.find_opt (fun (c : Service.gsvc_code) -> c.Service.gsc_sym = s.gs_sym) svc_code with
       | None -> ()
       | Some c ->
         let name = put_str s.gs_name in
         let position n =
           let rec go i = function [] -> -1 | x :: t -> if x = n then i else go (i + 1) t in
           go 0 c.Service.gsc_handlers in
         let handlers = List.map position c.Service.gsc_init_macro_args in
         let sv : (int, int) Service.service_state = Service.macro_init c handlers in
         List.iteri (fun i _ ->
             if i < List.length c.Service.gsc_handlers then
               match Service.call_stub c sv (nat_of_int i) (1000 + i) (2000 + i) (3000 + i) with
               | Some hc ->
                 pr "SS %s %d %d %d %d %d\n" name i hc.Service.hc_handler
                   (if hc.Service.hc_input = 1000 + i then 1 else 0)
                   (if hc.Service.hc_closure = 2000 + i then 1 else 0)
                   (if hc.Service.hc_closure_data = 3000 + i then 1 else 0)
               | None -> pr "SS %s %d -1 0 0 0\n" name i) c.Service.gsc_stubs;
         let destroy_token = 77 in
         let st : (int, int) Service.service_state = Service.generated_init c destroy_token in
         pr "SI %s %d %d %d\n" name
           (if st.Service.sv_descriptor = Some s.gs_sym && st.Service.sv_invoke_internal then 1 else 0)
           (if st.Service.sv_destroy = Some destroy_token then 1 else 0)
           (if Service.all_handlers_null st then 1 else 0);
         pr "SX %s %d\n" name (if Service.service_destroy st = Some destroy_token then 1 else 0))) svcs;
  print_string (Buffer.contents buf)

(* C20 -- generated service stubs dispatch to the right handler.
   Statements only; proofs in Proofs/ServiceDispatch.v.  GenModel/Service.v models what c_service.cc emits
   for a service (struct member order, <UC>__INIT argument order, the constant each stub passes to invoke,
   <svc>__init) and the three library functions involved; tied to the real generated code by the generator
   tie (every stub of every service is called through compiled generated code: lines SS SI SX). *)
From Coq Require Import ZArith List Bool.
From PBC Require Import Base.CInt GenModel.Gen GenModel.Service Proofs.ServiceDispatch.
Import ListNotations.

(* calling the stub of method i invokes exactly handler i of the table, passing input, closure and
   closure data unchanged; for every service, any number of methods, any handlers *)
Theorem C20_stub_dispatch : forall (f : pfile) (s : psvc) (D H I C X : Type) (hs : list H) (i : nat)
                                   (inp : I) (cl : C) (d : X) h,
  length hs = length (ps_methods s) -> nth_error hs i = Some h ->
  call_stub (gen_svc_code f s) (macro_init (D := D) (gen_svc_code f s) hs) i inp cl d =
  Some {| hc_handler := h; hc_input := inp; hc_closure := cl; hc_closure_data := d |}.
Proof. exact stub_dispatch. Qed.
Print Assumptions C20_stub_dispatch.

Theorem C20_no_stub_beyond_the_methods : forall f s i,
  (length (ps_methods s) <= i)%nat -> stub_index (gen_svc_code f s) i = None.
Proof. exact no_extra_stub. Qed.
Print Assumptions C20_no_stub_beyond_the_methods.

(* init records descriptor and destroy callback and clears all handlers; destroy invokes that callback *)
Theorem C20_init_and_destroy : forall f s (D H : Type) (destroy : D),
  let sv := generated_init (D := D) (H := H) (gen_svc_code f s) destroy in
  sv_descriptor sv = Some (descriptor_sym f (ps_full_name s)) /\ sv_invoke_internal sv = true /\
  service_destroy sv = Some destroy /\ all_handlers_null sv = true /\
  length (sv_handlers sv) = length (ps_methods s).
Proof. exact init_and_destroy. Qed.
Print Assumptions C20_init_and_destroy.

(* the method order in the descriptor is the order of the handlers in the generated structure *)
Theorem C20_handler_order_is_method_order : forall f s fs,
  length (gsc_handlers (gen_svc_code f s)) = length (gs_methods (gen_svc fs f s)) /\
  forall i mt, nth_error (ps_methods s) i = Some mt ->
    nth_error (gsc_handlers (gen_svc_code f s)) i = Some (camel_to_lower (pmt_name mt)) /\
    nth_error (gs_methods (gen_svc fs f s)) i = Some (gen_method fs f mt).
Proof. exact handler_order_is_method_order. Qed.
Print Assumptions C20_handler_order_is_method_order.

(* C14, name lookups on generated descriptors: the by-name tables GenModel.Gen emits are strictly
   ascending, so (Proofs/NameLookup.v) every field / method name is found and every other string rejected. *)
From Coq Require Import ZArith List Bool Lia Arith Sorted Permutation.
From PBC Require Import Base.CInt GenModel.Ranges GenModel.Gen GenModel.LookupModel Proofs.SortLemmas Proofs.NameLookup Proofs.GenStruct.
Import ListNotations.
Local Open Scope Z_scope.

(* ---- a table of (index, name) pairs sorted by name *)
Lemma number_from_spec : forall (l : list str) i p, In p (number_from i l) ->
  i <= fst p < i + Z.of_nat (length l) /\ nth_error l (Z.to_nat (fst p - i)) = Some (snd p).
Proof.
  induction l as [|x l IH]; intros i p H; [contradiction|]. cbn [number_from] in H. destruct H as [<-|H].
  - cbn [fst snd length]. replace (i - i) with 0 by lia. cbn. split; [lia | reflexivity].
  - destruct (IH (i + 1) p H) as [Hr Hn]. cbn [length]. split; [lia|].
    replace (Z.to_nat (fst p - i)) with (S (Z.to_nat (fst p - (i + 1)))) by lia. exact Hn.
Qed.

Lemma number_from_snd : forall (l : list str) i, map snd (number_from i l) = l.
Proof. induction l as [|x l IH]; intros i; [reflexivity|]. cbn [number_from map snd]. rewrite IH. reflexivity. Qed.

Definition by_name_tbl (names : list str) : list (Z * str) :=
  isort_by (fun a b : Z * str => str_ltb (snd a) (snd b)) (number_from 0 names).

Lemma le_nodup_slt : forall l : list str,
  StronglySorted (fun a b => str_ltb b a = false) l -> NoDup l -> StronglySorted slt l.
Proof.
  induction l as [|a t IH]; intros Hs Hn; [constructor|].
  inversion Hs as [|? ? Hst Ha]; subst. inversion Hn as [|? ? Hnotin Hn']; subst.
  constructor; [exact (IH Hst Hn')|].
  rewrite Forall_forall in *. intros b Hb. specialize (Ha b Hb). unfold slt.
  destruct (str_ltb a b) eqn:E; [reflexivity|]. exfalso. apply Hnotin.
  assert (a = b) by (apply str_ltb_total; assumption). subst b. exact Hb.
Qed.

Lemma by_name_tbl_spec : forall names, NoDup names ->
  StronglySorted slt (map snd (by_name_tbl names)) /\
  Permutation (map snd (by_name_tbl names)) names /\
  length (by_name_tbl names) = length names /\
  (forall p, In p (by_name_tbl names) -> nth_error names (Z.to_nat (fst p)) = Some (snd p)).
Proof.
  intros names Hnd. unfold by_name_tbl.
  set (lt := fun a b : Z * str => str_ltb (snd a) (snd b)).
  assert (Hperm : Permutation (map snd (isort_by lt (number_from 0 names))) names).
  { rewrite <- (number_from_snd names 0) at 2. apply Permutation_map. apply isort_by_perm. }
  split; [|split; [exact Hperm|split]].
  - apply le_nodup_slt.
    + assert (H : StronglySorted (le' (Z * str) lt) (isort_by lt (number_from 0 names))).
      { apply isort_by_sorted; unfold le', lt.
        - intros a b c. apply str_le_trans.
        - intros a b. apply str_ltb_asym. }
      clear -H. induction H as [|a t Ht IH Ha]; [constructor|]. cbn [map]. constructor; [exact IH|].
      rewrite Forall_forall in *. intros b Hb. apply in_map_iff in Hb. destruct Hb as (p & <- & Hp). exact (Ha p Hp).
    + eapply Permutation_NoDup; [apply Permutation_sym; exact Hperm | exact Hnd].
  - rewrite isort_by_length. clear. generalize 0. induction names as [|x l IH]; intros i; [reflexivity|]. cbn. f_equal. apply IH.
  - intros p Hp. apply isort_by_in in Hp. destruct (number_from_spec names 0 p Hp) as [_ Hn].
    replace (fst p - 0) with (fst p) in Hn by lia. exact Hn.
Qed.

(* ---- messages *)
Section Msg.
Variables (tg : bool) (fs : list pfile) (f : pfile) (gi : bool) (m : pmsg).
Hypothesis Hcs : code_size f = false.
Hypothesis Huo : pfl_use_oneof_field_name f = false.
Hypothesis Hnd : NoDup (map pf_name (pm_fields m)).
Let g := gen_msg tg fs f gi m.
Let sorted := sort_fields (pm_fields m).

Lemma gm_names : map gf_name (gm_fields g) = map (fun fd => Some (pf_name fd)) sorted.
Proof.
  destruct (gen_msg_fields tg fs f gi m) as (_ & HF & _). fold g sorted in HF.
  induction HF as [|fd gf la lg Hm _ IH]; [reflexivity|]. cbn [map]. rewrite IH. f_equal.
  destruct Hm as (_ & Hn & _). rewrite Hn. unfold name_ptr, field_proto_name. rewrite Hcs, Huo. reflexivity.
Qed.

Lemma gm_by_name : gm_fields_sorted_by_name g =
  match sorted with [] => None | _ => Some (map fst (by_name_tbl (map pf_name sorted))) end.
Proof.
  unfold g, gen_msg. fold sorted.
  destruct (assign_groups [] sorted) as [groups seen]. destruct (mk_ranges (map pf_number sorted)) as [ranges n].
  cbn [gm_fields_sorted_by_name]. rewrite Hcs. destruct sorted; reflexivity.
Qed.

Lemma sorted_names_nodup : NoDup (map pf_name sorted).
Proof.
  eapply Permutation_NoDup; [|exact Hnd]. apply Permutation_map. apply Permutation_sym. apply isort_by_perm.
Qed.

Lemma slot_names_eq : msg_slot_names g (map fst (by_name_tbl (map pf_name sorted))) = map snd (by_name_tbl (map pf_name sorted)).
Proof.
  destruct (by_name_tbl_spec _ sorted_names_nodup) as (_ & _ & _ & Hnth).
  unfold msg_slot_names. rewrite map_map.
  apply map_ext_in. intros p Hp. specialize (Hnth p Hp).
  assert (Hg : nth_error (map gf_name (gm_fields g)) (Z.to_nat (fst p)) = Some (Some (snd p))).
  { rewrite gm_names. rewrite nth_error_map. rewrite nth_error_map in Hnth.
    destruct (nth_error sorted (Z.to_nat (fst p))); [|discriminate Hnth]. cbn in *. inversion Hnth. reflexivity. }
  rewrite nth_error_map in Hg. destruct (nth_error (gm_fields g) (Z.to_nat (fst p))) as [gf|]; [|discriminate Hg].
  cbn in Hg. inversion Hg as [Hn]. rewrite Hn. reflexivity.
Qed.

(* by name: Some i  =>  field i of the descriptor is called key;  None => no field is called key *)
Theorem gen_msg_name_lookup : forall key,
  match msg_field_by_name g key with
  | Some i => exists gf, nth_error (gm_fields g) i = Some gf /\ gf_name gf = Some key
  | None => forall gf, In gf (gm_fields g) -> gf_name gf <> Some key
  end.
Proof.
  intros key. unfold msg_field_by_name. rewrite gm_by_name.
  destruct sorted as [|fd0 rest] eqn:Es.
  - intros gf Hin. assert (Hl : length (gm_fields g) = 0%nat).
    { rewrite <- (map_length gf_name). rewrite gm_names. rewrite Es. reflexivity. }
    destruct (gm_fields g); [contradiction | discriminate Hl].
  - rewrite <- Es. rewrite slot_names_eq.
    destruct (by_name_tbl_spec _ sorted_names_nodup) as (Hsorted & Hperm & Hlen & Hnth).
    set (tbl := by_name_tbl (map pf_name sorted)) in *.
    pose proof (name_search_correct (map snd tbl) Hsorted key) as Hc.
    destruct (name_search (map snd tbl) key) as [slot|].
    + destruct Hc as [Hlt Heq]. rewrite map_length in Hlt.
      (* the pair at that slot *)
      assert (Hp : exists p, nth_error tbl slot = Some p) by (destruct (nth_error tbl slot) eqn:E; [eauto | apply nth_error_None in E; lia]).
      destruct Hp as (p & Hp).
      assert (Hfst : nth slot (map fst tbl) 0 = fst p) by (rewrite (nth_indep _ 0 (fst (0, @nil Z))) by (rewrite map_length; lia); rewrite map_nth; erewrite nth_error_nth by exact Hp; reflexivity).
      assert (Hsnd : nth slot (map snd tbl) [] = snd p) by (rewrite (nth_indep _ [] (snd (0, @nil Z))) by (rewrite map_length; lia); rewrite map_nth; erewrite nth_error_nth by exact Hp; reflexivity).
      rewrite Hfst. specialize (Hnth p (nth_error_In _ _ Hp)).
      assert (Hg : nth_error (map gf_name (gm_fields g)) (Z.to_nat (fst p)) = Some (Some key)).
      { rewrite gm_names. rewrite nth_error_map. rewrite nth_error_map in Hnth.
        destruct (nth_error sorted (Z.to_nat (fst p))); [|discriminate Hnth]. cbn in *. inversion Hnth. congruence. }
      rewrite nth_error_map in Hg. destruct (nth_error (gm_fields g) (Z.to_nat (fst p))) as [gf|]; [|discriminate Hg].
      exists gf. split; [reflexivity|]. cbn in Hg. inversion Hg. reflexivity.
    + intros gf Hin Hn. apply Hc. eapply Permutation_in; [apply Permutation_sym; exact Hperm|].
      assert (Hin2 : In (Some key) (map gf_name (gm_fields g))) by (rewrite <- Hn; apply in_map; exact Hin).
      rewrite gm_names in Hin2. apply in_map_iff in Hin2. destruct Hin2 as (fd & Hfd & Hinfd).
      inversion Hfd. apply in_map. exact Hinfd.
Qed.
End Msg.

(* ---- services *)
Section Svc.
Variables (fs : list pfile) (f : pfile) (s : psvc).
Hypothesis Hcs : code_size f = false.
Hypothesis Hnd : NoDup (map pmt_name (ps_methods s)).
Let g := gen_svc fs f s.

Lemma gs_names : map gmt_name (gs_methods g) = map (fun mt => Some (pmt_name mt)) (ps_methods s).
Proof. unfold g, gen_svc. cbn [gs_methods]. rewrite map_map. apply map_ext. intros mt. cbn. unfold name_ptr. rewrite Hcs. reflexivity. Qed.

Theorem gen_svc_name_lookup : forall key,
  match svc_method_by_name g key with
  | Some i => exists mt, nth_error (gs_methods g) i = Some mt /\ gmt_name mt = Some key
  | None => forall mt, In mt (gs_methods g) -> gmt_name mt <> Some key
  end.
Proof.
  intros key. unfold svc_method_by_name.
  assert (Htbl : gs_method_indices_by_name g = Some (map fst (by_name_tbl (map pmt_name (ps_methods s))))).
  { unfold g, gen_svc. cbn [gs_method_indices_by_name]. rewrite Hcs. reflexivity. }
  rewrite Htbl.
  destruct (by_name_tbl_spec _ Hnd) as (Hsorted & Hperm & Hlen & Hnth).
  set (tbl := by_name_tbl (map pmt_name (ps_methods s))) in *.
  assert (Hslots : svc_slot_names g (map fst tbl) = map snd tbl).
  { unfold svc_slot_names. rewrite map_map. apply map_ext_in. intros p Hp. specialize (Hnth p Hp).
    assert (Hg : nth_error (map gmt_name (gs_methods g)) (Z.to_nat (fst p)) = Some (Some (snd p))).
    { rewrite gs_names. rewrite nth_error_map. rewrite nth_error_map in Hnth.
      destruct (nth_error (ps_methods s) (Z.to_nat (fst p))); [|discriminate Hnth]. cbn in *. inversion Hnth. reflexivity. }
    rewrite nth_error_map in Hg. destruct (nth_error (gs_methods g) (Z.to_nat (fst p))) as [mt|]; [|discriminate Hg].
    cbn in Hg. inversion Hg as [Hn]. rewrite Hn. reflexivity. }
  rewrite Hslots.
  pose proof (name_search_correct (map snd tbl) Hsorted key) as Hc.
  destruct (name_search (map snd tbl) key) as [slot|].
  - destruct Hc as [Hlt Heq]. rewrite map_length in Hlt.
    assert (Hp : exists p, nth_error tbl slot = Some p) by (destruct (nth_error tbl slot) eqn:E; [eauto | apply nth_error_None in E; lia]).
    destruct Hp as (p & Hp).
    assert (Hfst : nth slot (map fst tbl) 0 = fst p) by (rewrite (nth_indep _ 0 (fst (0, @nil Z))) by (rewrite map_length; lia); rewrite map_nth; erewrite nth_error_nth by exact Hp; reflexivity).
    assert (Hsnd : nth slot (map snd tbl) [] = snd p) by (rewrite (nth_indep _ [] (snd (0, @nil Z))) by (rewrite map_length; lia); rewrite map_nth; erewrite nth_error_nth by exact Hp; reflexivity).
    rewrite Hfst. specialize (Hnth p (nth_error_In _ _ Hp)).
    assert (Hg : nth_error (map gmt_name (gs_methods g)) (Z.to_nat (fst p)) = Some (Some key)).
    { rewrite gs_names. rewrite nth_error_map. rewrite nth_error_map in Hnth.
      destruct (nth_error (ps_methods s) (Z.to_nat (fst p))); [|discriminate Hnth]. cbn in *. inversion Hnth. congruence. }
    rewrite nth_error_map in Hg. destruct (nth_error (gs_methods g) (Z.to_nat (fst p))) as [mt|]; [|discriminate Hg].
    exists mt. split; [reflexivity|]. cbn in Hg. inversion Hg. reflexivity.
  - intros mt Hin Hn. apply Hc. eapply Permutation_in; [apply Permutation_sym; exact Hperm|].
    assert (Hin2 : In (Some key) (map gmt_name (gs_methods g))) by (rewrite <- Hn; apply in_map; exact Hin).
    rewrite gs_names in Hin2. apply in_map_iff in Hin2. destruct Hin2 as (mt0 & Hmt & Hinmt).
    inversion Hmt. apply in_map. exact Hinmt.
Qed.
End Svc.

(* ---- enums *)
Lemma sorted_by_key : forall (A : Type) (key : A -> str) (l : list A), NoDup (map key l) ->
  let s := isort_by (fun a b => str_ltb (key a) (key b)) l in
  StronglySorted slt (map key s) /\ Permutation s l.
Proof.
  intros A key l Hnd s. subst s. set (lt := fun a b : A => str_ltb (key a) (key b)).
  split; [|apply isort_by_perm].
  apply le_nodup_slt.
  - assert (H : StronglySorted (le' A lt) (isort_by lt l)).
    { apply isort_by_sorted; unfold le', lt.
      - intros a b c. apply str_le_trans.
      - intros a b. apply str_ltb_asym. }
    clear -H. induction H as [|a t Ht IH Ha]; [constructor|]. cbn [map]. constructor; [exact IH|].
    rewrite Forall_forall in *. intros b Hb. apply in_map_iff in Hb. destruct Hb as (p & <- & Hp). exact (Ha p Hp).
  - eapply Permutation_NoDup; [|exact Hnd]. apply Permutation_map. apply Permutation_sym. apply isort_by_perm.
Qed.

Lemma forall2_impl : forall A B (P Q : A -> B -> Prop) la lb,
  (forall a b, P a b -> Q a b) -> Forall2 P la lb -> Forall2 Q la lb.
Proof. intros A B P Q la lb H F. induction F; constructor; auto. Qed.

Lemma forall2_in_r : forall A B (P : A -> B -> Prop) la lb b,
  Forall2 P la lb -> In b lb -> exists a, In a la /\ P a b.
Proof.
  intros A B P la lb b F. induction F as [|x y la lb Hxy _ IH]; intros Hin; [contradiction|].
  destruct Hin as [<-|Hin]; [exists x; split; [left; reflexivity | exact Hxy]|].
  destruct (IH Hin) as (a & Ha & Hp). exists a. split; [right; exact Ha | exact Hp].
Qed.

Definition fi_rel (prev : option Z) (next : Z) (U : list Z) (nv ni : str * Z) : Prop :=
  fst nv = fst ni /\
  ((prev = Some (snd nv) /\ snd ni = next - 1) \/
   (next <= snd ni /\ nth_error U (Z.to_nat (snd ni - next)) = Some (snd nv))).

Lemma final_indices_spec : forall l prev next,
  Forall2 (fi_rel prev next (map snd (unique_values prev l))) l (final_indices prev next l).
Proof.
  induction l as [|[n v] t IH]; intros prev next; [constructor|].
  cbn [unique_values final_indices].
  assert (Hfresh : Forall2 (fi_rel prev next (map snd ((n, v) :: unique_values (Some v) t))) ((n, v) :: t)
                           ((n, next) :: final_indices (Some v) (next + 1) t)).
  { constructor.
    - split; [reflexivity|]. right. cbn [snd map]. replace (next - next) with 0 by lia. split; [lia | reflexivity].
    - specialize (IH (Some v) (next + 1)).
      eapply forall2_impl; [|exact IH]. intros nv ni [Hf [[Hp Hi] | [Hle Hn]]]; split; try exact Hf; right.
      + inversion Hp as [Hv]. cbn [map snd]. replace (snd ni - next) with 0 by lia. split; [lia | cbn; congruence].
      + cbn [map snd]. replace (Z.to_nat (snd ni - next)) with (S (Z.to_nat (snd ni - (next + 1)))) by lia.
        split; [lia | exact Hn]. }
  destruct prev as [p|]; [|exact Hfresh].
  destruct (Z.eqb_spec p v) as [->|Hne]; [|exact Hfresh].
  constructor; [split; [reflexivity | left; split; reflexivity] | exact (IH (Some v) next)].
Qed.

Section Enum.
Variables (f : pfile) (e : penum).
Hypothesis Hcs : code_size f = false.
Hypothesis Hnd : NoDup (map fst (pe_values e)).
Let g := gen_enum f e.

(* by name: Some i => some declared value called key has the number stored at index i of the
   values array (aliases resolve to the entry that represents their number); None => no value is called key *)
Theorem gen_enum_name_lookup : forall key,
  match enum_value_by_name g key with
  | Some i => exists v gv, In (key, v) (pe_values e) /\ nth_error (ge_values g) i = Some gv /\ gev_value gv = v
  | None => forall v, ~ In (key, v) (pe_values e)
  end.
Proof.
  intros key. unfold enum_value_by_name, g, gen_enum.
  set (sorted := sort_enum_values (pe_values e)).
  destruct (mk_ranges (map snd (unique_values None sorted))) as [ranges n].
  cbn [ge_values_by_name ge_values]. rewrite Hcs.
  set (FI := final_indices None 0 sorted).
  pose proof (final_indices_spec sorted None 0) as Hfi. fold FI in Hfi.
  assert (Hsp : Permutation sorted (pe_values e)) by apply isort_by_perm.
  assert (Hfst : map fst FI = map fst sorted).
  { clear -Hfi. induction Hfi as [|a b la lb Hab _ IH]; [reflexivity|]. cbn [map]. rewrite IH. f_equal. symmetry. exact (proj1 Hab). }
  assert (HndFI : NoDup (map fst FI)).
  { rewrite Hfst. eapply Permutation_NoDup; [|exact Hnd]. apply Permutation_map. apply Permutation_sym. exact Hsp. }
  destruct (sorted_by_key _ fst FI HndFI) as (Hsorted & Hperm).
  set (tbl := isort_by (fun a b : str * Z => str_ltb (fst a) (fst b)) FI) in *.
  pose proof (name_search_correct (map fst tbl) Hsorted key) as Hc.
  (* every table entry (name, idx) names a declared value whose number sits at idx *)
  assert (Hent : forall ni, In ni tbl -> exists v, In (fst ni, v) (pe_values e) /\
                   nth_error (map snd (unique_values None sorted)) (Z.to_nat (snd ni)) = Some v).
  { intros ni Hin. apply (Permutation_in _ Hperm) in Hin.
    destruct (forall2_in_r _ _ _ _ _ ni Hfi Hin) as (a & Ha & Hab).
    destruct Hab as [Hf [[Hp _] | [_ Hn]]]; [discriminate Hp|].
    exists (snd a). split.
    + rewrite <- Hf. replace (fst a, snd a) with a by (destruct a; reflexivity).
      eapply Permutation_in; [exact Hsp | exact Ha].
    + replace (snd ni - 0) with (snd ni) in Hn by lia. exact Hn. }
  destruct (name_search (map fst tbl) key) as [slot|].
  - destruct Hc as [Hlt Heq]. rewrite map_length in Hlt.
    assert (Hp : exists p, nth_error tbl slot = Some p) by (destruct (nth_error tbl slot) eqn:E; [eauto | apply nth_error_None in E; lia]).
    destruct Hp as (p & Hp).
    assert (Hnth : nth slot tbl ([], 0) = p) by (erewrite nth_error_nth by exact Hp; reflexivity).
    rewrite Hnth.
    assert (Hk : fst p = key).
    { rewrite <- Heq. rewrite (nth_indep _ [] (fst (@nil Z, 0))) by (rewrite map_length; lia). rewrite map_nth. rewrite Hnth. reflexivity. }
    destruct (Hent p (nth_error_In _ _ Hp)) as (v & Hin & Hn).
    rewrite nth_error_map in Hn. destruct (nth_error (unique_values None sorted) (Z.to_nat (snd p))) as [nv|] eqn:En; [|discriminate Hn].
    exists v. eexists. split; [rewrite <- Hk; exact Hin|]. split.
    + rewrite nth_error_map. rewrite En. reflexivity.
    + cbn. cbn in Hn. inversion Hn. reflexivity.
  - intros v Hin. apply Hc.
    assert (H1 : In key (map fst FI)).
    { rewrite Hfst. apply in_map_iff. exists (key, v). split; [reflexivity|]. eapply Permutation_in; [apply Permutation_sym; exact Hsp | exact Hin]. }
    apply in_map_iff in H1. destruct H1 as (ni & Hk & Hni). apply in_map_iff. exists ni. split; [exact Hk|].
    eapply Permutation_in; [apply Permutation_sym; exact Hperm | exact Hni].
Qed.
End Enum.

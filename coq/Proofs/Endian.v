(* C16: the portable byte-by-byte code selected by WORDS_BIGENDIAN computes the
   same results as the little-endian fast path (both regenerated from the C
   source, with and without -DWORDS_BIGENDIAN). *)
From Coq Require Import ZArith List Bool Lia ZifyBool.
From PBC Require Import Base.CInt Base.Bits Gen.LeafC Gen.LeafC_BE Spec.Wire Proofs.LeafEnc Proofs.LeafDec.
Import ListNotations.
Local Open Scope Z_scope.

Ltac Zify.zify_post_hook ::= Z.div_mod_to_equations.

Lemma be_fixed32_pack : forall v, LeafC_BE.fixed32_pack v [] = (4, le_n 4 v).
Proof.
  intros v. unfold LeafC_BE.fixed32_pack. cbv zeta. rewrite !shiftr_div by lia.
  upd_calc. unfold u8. cbn [le_n].
  change (2 ^ 8) with 256. change (2 ^ 16) with 65536. change (2 ^ 24) with 16777216.
  repeat (f_equal; try lia).
Qed.

Theorem fixed32_pack_endian : forall v, LeafC_BE.fixed32_pack v [] = LeafC.fixed32_pack v [].
Proof. intros. rewrite be_fixed32_pack, fixed32_pack_spec. reflexivity. Qed.

Lemma be_fixed32_pack_any : forall v out, length out = 0%nat -> LeafC_BE.fixed32_pack v out = (4, le_n 4 v).
Proof. intros v out H. destruct out; [apply be_fixed32_pack | discriminate]. Qed.

Theorem fixed64_pack_endian : forall v, 0 <= v < 18446744073709551616 ->
  LeafC_BE.fixed64_pack v [] = LeafC.fixed64_pack v [].
Proof.
  intros v Hv. rewrite fixed64_pack_spec. unfold LeafC_BE.fixed64_pack. cbv zeta.
  rewrite be_fixed32_pack. change (Z.to_nat 4) with 4%nat.
  assert (E : skipn 4 (le_n 4 (u32 v)) = []).
  { apply skipn_all2. rewrite le_n_length'. lia. }
  rewrite E. rewrite be_fixed32_pack.
  unfold splice. change (Z.to_nat 4) with 4%nat.
  rewrite <- (le_n_length' 4 (u32 v)) at 1. rewrite take_pad_all.
  rewrite (shiftr_div v 32) by lia. change (2 ^ 32) with 4294967296.
  unfold u32. cbn [le_n app]. repeat (f_equal; try lia).
Qed.

Lemma byte_group : forall b k, 0 <= b < 256 -> 0 <= k <= 24 -> u32 (Z.shiftl b k) = b * 2 ^ k.
Proof.
  intros b k Hb Hk. rewrite shiftl_mul by lia. apply u32_small.
  assert (2 ^ k <= 2 ^ 24) by (apply Z.pow_le_mono_r; lia). change (2 ^ 24) with 16777216 in *.
  assert (0 < 2 ^ k) by (apply Z.pow_pos_nonneg; lia). nia.
Qed.

Theorem parse_fixed_uint32_endian : forall b0 b1 b2 b3 rest,
  0 <= b0 < 256 -> 0 <= b1 < 256 -> 0 <= b2 < 256 -> 0 <= b3 < 256 ->
  LeafC_BE.parse_fixed_uint32 (b0 :: b1 :: b2 :: b3 :: rest) =
  LeafC.parse_fixed_uint32 (b0 :: b1 :: b2 :: b3 :: rest).
Proof.
  intros b0 b1 b2 b3 rest H0 H1 H2 H3.
  unfold LeafC_BE.parse_fixed_uint32, LeafC.parse_fixed_uint32, load_le. cbv zeta.
  change (Z.to_nat 4) with 4%nat. cbn [take_pad le_value]. rdn.
  rewrite (byte_group b1 8), (byte_group b2 16), (byte_group b3 24) by lia.
  rewrite (lor_disjoint b0 b1 8) by (change (2 ^ 8) with 256; lia).
  rewrite (lor_disjoint _ b2 16) by (change (2 ^ 8) with 256; change (2 ^ 16) with 65536; lia).
  rewrite (lor_disjoint _ b3 24) by (change (2 ^ 8) with 256; change (2 ^ 16) with 65536; change (2 ^ 24) with 16777216; lia).
  change (2 ^ 8) with 256. change (2 ^ 16) with 65536. change (2 ^ 24) with 16777216. lia.
Qed.

Theorem parse_fixed_uint64_endian : forall b0 b1 b2 b3 b4 b5 b6 b7 rest,
  0 <= b0 < 256 -> 0 <= b1 < 256 -> 0 <= b2 < 256 -> 0 <= b3 < 256 ->
  0 <= b4 < 256 -> 0 <= b5 < 256 -> 0 <= b6 < 256 -> 0 <= b7 < 256 ->
  LeafC_BE.parse_fixed_uint64 (b0 :: b1 :: b2 :: b3 :: b4 :: b5 :: b6 :: b7 :: rest) =
  LeafC.parse_fixed_uint64 (b0 :: b1 :: b2 :: b3 :: b4 :: b5 :: b6 :: b7 :: rest).
Proof.
  intros b0 b1 b2 b3 b4 b5 b6 b7 rest H0 H1 H2 H3 H4 H5 H6 H7.
  unfold LeafC_BE.parse_fixed_uint64. change (Z.to_nat 4) with 4%nat. cbn [skipn].
  rewrite !parse_fixed_uint32_endian by assumption.
  unfold LeafC.parse_fixed_uint32, LeafC.parse_fixed_uint64, load_le. cbv zeta.
  change (Z.to_nat 4) with 4%nat. change (Z.to_nat 8) with 8%nat. cbn [take_pad le_value].
  set (lo := b0 + 256 * (b1 + 256 * (b2 + 256 * (b3 + 256 * 0)))).
  set (hi := b4 + 256 * (b5 + 256 * (b6 + 256 * (b7 + 256 * 0)))).
  assert (Hlo : 0 <= lo < 4294967296) by (subst lo; lia).
  assert (Hhi : 0 <= hi < 4294967296) by (subst hi; lia).
  rewrite (shiftl_mul hi 32) by lia. change (2 ^ 32) with 4294967296.
  rewrite (u64_small (hi * 4294967296)) by lia.
  change 4294967296 with (2 ^ 32) at 1. rewrite (lor_disjoint lo hi 32) by (change (2 ^ 32) with 4294967296; lia).
  change (2 ^ 32) with 4294967296. subst lo hi. lia.
Qed.

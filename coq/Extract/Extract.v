(* Extraction of the executable models for the correspondence checks.
   Only ExtrOcamlBasic is used: Z, positive, nat, list stay inductive. *)
From Coq Require Import ZArith List Bool Extraction ExtrOcamlBasic.
From PBC Require Import Base.CInt Gen.LeafC Gen.LeafC_BE Impl.Desc Impl.Mem Impl.Enc Impl.Size Impl.Pack
     Impl.PackBuf Impl.Unpack Impl.Check Impl.BufSimple Impl.WF Impl.Canon Impl.Norm Impl.WNorm Impl.Typed Impl.Heap Impl.Ledger Spec.Defect Spec.WireMsg Spec.WireRaw Impl.Denote Impl.SpecParse GenModel.Ranges GenModel.Gen GenModel.LookupModel GenModel.Service.
Extraction Language OCaml.
Set Extraction KeepSingleton.
Extraction Blacklist List String Int.
Separate Extraction
  CInt LeafC LeafC_BE Desc Mem Enc Size.size_msg Pack.pack_msg PackBuf.chunks_msg
  Unpack.unpack_top Unpack.merge_messages Unpack.init_msg Check.check_msg
  BufSimple.buf_init BufSimple.buf_appends BufSimple.buf_clear BufSimple.live_blocks BufSimple.plan_of_list
  WF.wf_msg Canon.canon_msg Canon.env_ok Defect.defect_msg Ledger.monitor Norm.norm_msg WNorm.wnorm_msg Typed.typed_msg Typed.unk_small Heap.h_unpack Heap.h_free Heap.h_run
  WireMsg.read_message Denote.records SpecParse.spec_parse_top
  Ranges.mk_ranges Ranges.dedup_sorted
  Gen.gen_all Gen.init_state Gen.file_supported
  LookupModel.name_search LookupModel.msg_field_by_name LookupModel.msg_field_by_number
  LookupModel.enum_value_by_name LookupModel.enum_value_by_number LookupModel.svc_method_by_name
  Service.gen_all_svc_code Service.stub_index Service.invoke Service.macro_init Service.call_stub
  Service.generated_init Service.service_destroy Service.all_handlers_null
  Z.of_nat Z.to_nat Z.eqb Z.ltb Z.add Z.mul Z.sub Z.opp Z.shiftl Z.lor Z.land Z.modulo Z.div Z.pow.

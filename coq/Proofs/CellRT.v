(* Round trip of one scalar cell: decode (encode w) = w for every canonical
   word of every scalar type. *)
From Coq Require Import ZArith List Bool Lia ZifyBool.
From PBC Require Import Base.CInt Base.Bits Base.Bits2 Gen.LeafC Spec.Wire
     Impl.Desc Impl.Mem Impl.Enc Impl.WF Impl.Unpack Impl.Canon
     Proofs.LeafEnc Proofs.EncLemmas Proofs.LeafDec Proofs.SizePack.
Import ListNotations.
Local Open Scope Z_scope.

Ltac Zify.zify_post_hook ::= Z.div_mod_to_equations.

Lemma parse_u32_canon : forall v rest, 0 <= v < 18446744073709551616 ->
  parse_uint32 (u32 (zlen (varint v))) (varint v ++ rest) = v mod 4294967296.
Proof.
  intros v rest Hv. destruct (varint_wf v Hv) as (W & V & L & B).
  rewrite (u32_small (zlen (varint v))) by (unfold zlen; lia).
  unfold zlen. rewrite parse_uint32_spec by assumption. rewrite V. reflexivity.
Qed.

Lemma parse_u64_canon : forall v rest, 0 <= v < 18446744073709551616 ->
  parse_uint64 (u32 (zlen (varint v))) (varint v ++ rest) = v.
Proof.
  intros v rest Hv. destruct (varint_wf v Hv) as (W & V & L & B).
  rewrite (u32_small (zlen (varint v))) by (unfold zlen; lia).
  unfold zlen. rewrite parse_uint64_spec by assumption. rewrite V.
  apply Z.mod_small. exact Hv.
Qed.

Lemma sext32_range : forall w, 0 <= w < 4294967296 -> 0 <= sext32 w < 18446744073709551616 /\ sext32 w mod 4294967296 = w.
Proof. intros w H. unfold sext32. destruct (Z.ltb_spec w 2147483648); lia. Qed.

Lemma zigzag32_range' : forall v, -2147483648 <= v < 2147483648 -> 0 <= zigzag 32 v < 4294967296.
Proof. intros v H. exact (proj2 (zigzag32_spec v H)). Qed.
Lemma zigzag64_range' : forall v, -9223372036854775808 <= v < 9223372036854775808 -> 0 <= zigzag 64 v < 18446744073709551616.
Proof. intros v H. exact (proj2 (zigzag64_spec v H)). Qed.

Lemma s32_u32_id : forall w, 0 <= w < 4294967296 -> u32 (s32 w) = w.
Proof. intros w H. rewrite u32_s32. apply u32_small. exact H. Qed.
Lemma s64_u64_id : forall w, 0 <= w < 18446744073709551616 -> u64 (s64 w) = w.
Proof. intros w H. rewrite u64_s64. apply u64_small. exact H. Qed.

Lemma le4_len : forall v, zlen (le_n 4 v) = 4.
Proof. intros. unfold zlen. rewrite le_n_length'. reflexivity. Qed.
Lemma le8_len : forall v, zlen (le_n 8 v) = 8.
Proof. intros. unfold zlen. rewrite le_n_length'. reflexivity. Qed.

Lemma fixed32_rt : forall w rest, 0 <= w < 4294967296 -> parse_fixed_uint32 (le_n 4 w ++ rest) = w.
Proof. intros w rest H. apply parse_fixed_uint32_spec. exact H. Qed.
Lemma fixed64_rt : forall w rest, 0 <= w < 18446744073709551616 -> parse_fixed_uint64 (le_n 8 w ++ rest) = w.
Proof. intros w rest H. apply parse_fixed_uint64_spec. exact H. Qed.

Lemma parse_boolean_one : forall x rest, (x = 0 \/ x = 1) -> parse_boolean (u32 1) (x :: rest) = x.
Proof.
  intros x rest Hx. unfold parse_boolean. cbv zeta. change (u32 1) with 1. change (Z.to_nat 1) with 1%nat.
  rewrite while_S'. cbv beta iota zeta. change (0 <? 1) with true. cbv iota. change (rd (x :: rest) 0) with x.
  destruct Hx as [-> | ->].
  - change (Z.land 0 127 =? 0) with true. cbn [negb]. cbv iota. change (u32 (0 + 1)) with 1.
    rewrite while_S'. cbv beta iota zeta. change (1 <? 1) with false. cbv iota. reflexivity.
  - change (Z.land 1 127 =? 0) with false. cbn [negb]. cbv iota. reflexivity.
Qed.

Theorem dec_enc_scalar_rest : forall t w b rest, is_scalar t = true -> canon_word t w = true ->
  e_scalar t w = Ok b ->
  dec_scalar t (wire_type_of t) (zlen b) (b ++ rest) = Ok w.
Proof.
  intros t w b rest Ht Hc He.
  destruct t; try discriminate Ht; cbn [e_scalar] in He; inversion He; subst b; clear He;
    cbn [dec_scalar wire_type_of]; unfold canon_word in Hc; cbn [is4] in Hc.
  - (* int32 *)
    rewrite (u32_small w) by lia. rewrite e_int32_spec by lia.
    destruct (sext32_range w ltac:(lia)) as [R M].
    change (WT_VARINT =? WT_VARINT) with true. unfold parse_int32. rewrite parse_u32_canon by lia.
    rewrite M. rewrite u32_small by lia. reflexivity.
  - (* sint32 *)
    pose proof (s32_range w) as Rs. rewrite e_sint32_spec by lia.
    pose proof (zigzag32_range' (s32 w) Rs) as Rz.
    change (WT_VARINT =? WT_VARINT) with true. rewrite parse_u32_canon by lia.
    rewrite Z.mod_small by lia. rewrite unzigzag32_spec by lia. rewrite unzigzag_zigzag.
    rewrite s32_u32_id by lia. reflexivity.
  - (* sfixed32 *)
    rewrite (u32_small w) by lia. rewrite e_fixed32_spec. change (WT_32BIT =? WT_32BIT) with true.
    rewrite fixed32_rt by lia. reflexivity.
  - (* int64 *)
    rewrite (u64_small w) by lia. rewrite e_uint64_spec by lia. change (WT_VARINT =? WT_VARINT) with true.
    rewrite parse_u64_canon by lia. reflexivity.
  - (* sint64 *)
    pose proof (s64_range w) as Rs. rewrite e_sint64_spec by lia.
    pose proof (zigzag64_range' (s64 w) Rs) as Rz.
    change (WT_VARINT =? WT_VARINT) with true. rewrite parse_u64_canon by lia.
    rewrite unzigzag64_spec by lia. rewrite unzigzag_zigzag. rewrite s64_u64_id by lia. reflexivity.
  - (* sfixed64 *)
    rewrite (u64_small w) by lia. rewrite e_fixed64_spec. change (WT_64BIT =? WT_64BIT) with true.
    rewrite fixed64_rt by lia. reflexivity.
  - (* uint32 *)
    rewrite (u32_small w) by lia. rewrite e_uint32_spec by lia. change (WT_VARINT =? WT_VARINT) with true.
    rewrite parse_u32_canon by lia. rewrite Z.mod_small by lia. reflexivity.
  - (* fixed32 *)
    rewrite (u32_small w) by lia. rewrite e_fixed32_spec. change (WT_32BIT =? WT_32BIT) with true.
    rewrite fixed32_rt by lia. reflexivity.
  - (* uint64 *)
    rewrite (u64_small w) by lia. rewrite e_uint64_spec by lia. change (WT_VARINT =? WT_VARINT) with true.
    rewrite parse_u64_canon by lia. reflexivity.
  - (* fixed64 *)
    rewrite (u64_small w) by lia. rewrite e_fixed64_spec. change (WT_64BIT =? WT_64BIT) with true.
    rewrite fixed64_rt by lia. reflexivity.
  - (* float *)
    rewrite (u32_small w) by lia. rewrite e_fixed32_spec. change (WT_32BIT =? WT_32BIT) with true.
    rewrite fixed32_rt by lia. reflexivity.
  - (* double *)
    rewrite (u64_small w) by lia. rewrite e_fixed64_spec. change (WT_64BIT =? WT_64BIT) with true.
    rewrite fixed64_rt by lia. reflexivity.
  - (* bool *)
    rewrite e_bool_spec.
    assert (Hw : w = 0 \/ w = 1) by (apply orb_true_iff in Hc; destruct Hc as [Hc|Hc]; apply Z.eqb_eq in Hc; auto).
    assert (Ex : (if s32 w =? 0 then 0 else 1) = w) by (destruct Hw as [-> | ->]; reflexivity).
    rewrite Ex. change (zlen [w]) with 1. cbn [app]. rewrite parse_boolean_one by exact Hw.
    rewrite u32_small by lia. reflexivity.
  - (* enum *)
    rewrite (u32_small w) by lia. rewrite e_int32_spec by lia.
    destruct (sext32_range w ltac:(lia)) as [R M].
    change (WT_VARINT =? WT_VARINT) with true. unfold parse_int32. rewrite parse_u32_canon by lia.
    rewrite M. rewrite u32_small by lia. reflexivity.
Qed.

Theorem dec_enc_scalar : forall t w b, is_scalar t = true -> canon_word t w = true ->
  e_scalar t w = Ok b ->
  dec_scalar t (wire_type_of t) (zlen b) b = Ok w.
Proof. intros t w b Ht Hc He. rewrite <- (app_nil_r b) at 2. apply dec_enc_scalar_rest; assumption. Qed.

(* the payload of a scalar is a well-formed payload for its wire type *)
Lemma scalar_payload_ok : forall t w b, is_scalar t = true -> e_scalar t w = Ok b ->
  (forall x, In x b -> 0 <= x < 256) /\
  ((wire_type_of t = WT_VARINT /\ wfv b /\ (length b <= 10)%nat) \/
   (wire_type_of t = WT_64BIT /\ length b = 8%nat) \/ (wire_type_of t = WT_32BIT /\ length b = 4%nat)).
Proof.
  intros t w b Ht He.
  assert (LE : forall n v x, In x (le_n n v) -> 0 <= x < 256).
  { induction n as [|k IH]; intros v x Hx; [contradiction|]. cbn [le_n In] in Hx. destruct Hx as [<-|Hx]; [lia | eauto]. }
  destruct t; try discriminate Ht; cbn [e_scalar] in He; inversion He; subst b; clear He; cbn [wire_type_of].
  - rewrite e_int32_spec by apply u32_range. destruct (sext32_range (u32 w) (u32_range w)) as [R _].
    destruct (varint_wf _ R) as (W & _ & L & B). split; [exact B | left; auto].
  - rewrite e_sint32_spec by apply s32_range. pose proof (zigzag32_range' _ (s32_range w)).
    destruct (varint_wf (zigzag 32 (s32 w)) ltac:(lia)) as (W & _ & L & B). split; [exact B | left; auto].
  - rewrite e_fixed32_spec. split; [apply LE | right; right; split; [reflexivity | apply le_n_length']].
  - rewrite e_uint64_spec by apply u64_range. destruct (varint_wf _ (u64_range w)) as (W & _ & L & B). split; [exact B | left; auto].
  - rewrite e_sint64_spec by apply s64_range. pose proof (zigzag64_range' _ (s64_range w)).
    destruct (varint_wf (zigzag 64 (s64 w)) ltac:(lia)) as (W & _ & L & B). split; [exact B | left; auto].
  - rewrite e_fixed64_spec. split; [apply LE | right; left; split; [reflexivity | apply le_n_length']].
  - rewrite e_uint32_spec by apply u32_range. pose proof (u32_range w).
    destruct (varint_wf (u32 w) ltac:(lia)) as (W & _ & L & B). split; [exact B | left; auto].
  - rewrite e_fixed32_spec. split; [apply LE | right; right; split; [reflexivity | apply le_n_length']].
  - rewrite e_uint64_spec by apply u64_range. destruct (varint_wf _ (u64_range w)) as (W & _ & L & B). split; [exact B | left; auto].
  - rewrite e_fixed64_spec. split; [apply LE | right; left; split; [reflexivity | apply le_n_length']].
  - rewrite e_fixed32_spec. split; [apply LE | right; right; split; [reflexivity | apply le_n_length']].
  - rewrite e_fixed64_spec. split; [apply LE | right; left; split; [reflexivity | apply le_n_length']].
  - rewrite e_bool_spec. split.
    + intros x [<-|[]]. destruct (s32 w =? 0); lia.
    + left. split; [reflexivity|]. split; [cbn [wfv]; destruct (s32 w =? 0); lia | cbn; lia].
  - rewrite e_int32_spec by apply u32_range. destruct (sext32_range (u32 w) (u32_range w)) as [R _].
    destruct (varint_wf _ R) as (W & _ & L & B). split; [exact B | left; auto].
Qed.

"""Boundary-dense inputs for the leaf tie (C leaf functions vs regenerated Gallina)."""
import random, itertools

B6 = [0x00, 0x01, 0x7f, 0x80, 0x81, 0xff]


def hexs(bs):
    return ''.join('%02x' % b for b in bs) if bs else '-'


def ints(bits, rnd, nrand):
    m = (1 << bits) - 1
    s = set()
    for k in range(bits + 1):
        for d in (-1, 0, 1):
            s.add(((1 << k) + d) & m)
            s.add((-(1 << k) + d) & m)
    for k in range(0, bits, 7):
        for d in (-2, -1, 0, 1, 2):
            s.add(((1 << k) + d) & m)
    for _ in range(nrand):
        s.add(rnd.getrandbits(bits))
        s.add(rnd.getrandbits(rnd.randint(1, bits)))
    return sorted(s)


def mk_ranges(vals):
    """the generator's WriteIntRanges over strictly increasing vals; returns (n_ranges, entries)"""
    if not vals:
        return 0, []
    out = []
    start = 0
    for i in range(1, len(vals)):
        if vals[i - 1] + 1 != vals[i]:
            out.append((vals[start], start))
            start = i
    out.append((vals[start], start))
    n = len(out)
    out.append((0, len(vals)))
    return n, out


def byte_strings(rnd, nrand, maxlen=12):
    out = []
    for n in range(0, 4):
        for t in itertools.product(B6, repeat=n):
            out.append(list(t))
    for _ in range(nrand):
        n = rnd.randint(1, maxlen)
        kind = rnd.random()
        if kind < 0.4:
            out.append([rnd.choice(B6) for _ in range(n)])
        elif kind < 0.7:   # a well-formed varint followed by junk
            k = rnd.randint(1, 10)
            v = [rnd.randint(0x80, 0xff) for _ in range(k - 1)] + [rnd.randint(0, 0x7f)]
            out.append(v + [rnd.randint(0, 255) for _ in range(rnd.randint(0, 3))])
        else:
            out.append([rnd.randint(0, 255) for _ in range(n)])
    return out


def cases(seed, scale=1):
    rnd = random.Random(seed)
    L = []
    i32 = ints(32, rnd, 60 * scale)
    i64 = ints(64, rnd, 60 * scale)
    for f in ('get_tag_size', 'uint32_size', 'int32_size', 'zigzag32', 'sint32_size', 'unzigzag32',
              'uint32_pack', 'int32_pack', 'sint32_pack', 'fixed32_pack', 'tag_pack', 'boolean_pack'):
        for v in i32:
            L.append('%s %x' % (f, v))
    for f in ('uint64_size', 'zigzag64', 'sint64_size', 'unzigzag64', 'uint64_pack', 'sint64_pack', 'fixed64_pack'):
        for v in i64:
            L.append('%s %x' % (f, v))
    for t in range(0, 17):
        for f in ('get_type_min_size', 'sizeof_elt_in_repeated_array', 'is_packable_type'):
            L.append('%s %x' % (f, t))
    bss = byte_strings(rnd, 400 * scale)
    for bs in bss:
        n = len(bs)
        if n >= 1:
            L.append('parse_tag_and_wiretype %x %s' % (n, hexs(bs)))
            for ln in sorted(set([1, n, min(n, 5), min(n, 10)])):
                if 1 <= ln <= min(n, 10):
                    L.append('parse_uint32 %x %s' % (ln, hexs(bs)))
                    L.append('parse_int32 %x %s' % (ln, hexs(bs)))
                    L.append('parse_uint64 %x %s' % (ln, hexs(bs)))
            L.append('scan_varint %x %s' % (n, hexs(bs)))
        L.append('parse_boolean %x %s' % (n, hexs(bs)))
        L.append('max_b128_numbers %x %s' % (n, hexs(bs)))
        L.append('scan_length_prefixed_data %x %s' % (n, hexs(bs)))
        for t in (2, 5, 0, 12, 14, 6):
            L.append('count_packed_elements %x %x %s' % (t, n, hexs(bs)))
        if n >= 4:
            L.append('parse_fixed_uint32 %s' % hexs(bs[:4]))
        if n >= 8:
            L.append('parse_fixed_uint64 %s' % hexs(bs[:8]))
    # length prefixes that do / do not fit
    for ln in (0, 1, 127, 128, 129, 300, 16383, 16384):
        pre = []
        v = ln
        while True:
            b = v & 0x7f
            v >>= 7
            if v:
                pre.append(b | 0x80)
            else:
                pre.append(b)
                break
        for extra in (-1, 0, 1):
            tot = ln + extra
            if tot < 0 or tot > 400:
                continue
            bs = pre + [0x41] * tot
            L.append('scan_length_prefixed_data %x %s' % (len(bs), hexs(bs)))
        for pad in (1, 2, 3, 4):    # padded length prefixes
            p2 = [b | 0x80 for b in pre] + [0x80] * (pad - 1) + [0x00]
            bs = p2 + [0x42] * min(ln, 40)
            L.append('scan_length_prefixed_data %x %s' % (len(bs), hexs(bs)))
    # range tables
    tables = []
    I32MIN, I32MAX = -2**31, 2**31 - 1
    tables.append([1])
    tables.append([1, 2, 3])
    tables.append([1, 2, 3, 5, 6, 10, 100, 101, 1000])
    tables.append([I32MAX])
    tables.append([I32MIN])
    tables.append([I32MIN, I32MIN + 1, -5, -4, 0, 1, I32MAX - 1, I32MAX])
    tables.append([I32MAX - 2, I32MAX - 1, I32MAX])
    tables.append([15, 16, 2047, 2048, 2**29 - 1])
    for _ in range(25 * scale):
        n = rnd.randint(1, 40)
        base = rnd.choice([0, 1, -50, I32MIN, I32MAX - 200, 2**29 - 300, rnd.randint(-10**6, 10**6)])
        vals = set()
        v = base
        for _ in range(n):
            vals.add(max(I32MIN, min(I32MAX, v)))
            v += rnd.choice([1, 1, 1, 2, 3, 10, 1000])
        tables.append(sorted(vals))
    for vals in tables:
        n, ents = mk_ranges(vals)
        enc = ','.join('%x:%x' % (s & 0xffffffff, i) for s, i in ents)
        keys = set()
        for v in vals:
            keys.update([v - 1, v, v + 1])
        keys.update([0, 1, -1, I32MIN, I32MAX, I32MIN + 1, I32MAX - 1])
        for _ in range(6):
            keys.add(rnd.randint(I32MIN, I32MAX))
        for k in sorted(keys):
            if I32MIN <= k <= I32MAX:
                L.append('int_range_lookup %x %s %x' % (n, enc, k & 0xffffffff))
    return L

(* C integer semantics used by the generated leaf layer (Gen/LeafC.v).
   Everything here is a definition; lemmas live in Base/CIntLemmas.v. *)
From Coq Require Import ZArith List Bool.
Import ListNotations.
Local Open Scope Z_scope.

Definition u8  (x : Z) : Z := x mod 256.
Definition u16 (x : Z) : Z := x mod 65536.
Definition u32 (x : Z) : Z := x mod 4294967296.
Definition u64 (x : Z) : Z := x mod 18446744073709551616.
Definition sw (half full x : Z) : Z :=
  let y := x mod full in if y <? half then y else y - full.
Definition s8  (x : Z) : Z := sw 128 256 x.
Definition s16 (x : Z) : Z := sw 32768 65536 x.
Definition s32 (x : Z) : Z := sw 2147483648 4294967296 x.
Definition s64 (x : Z) : Z := sw 9223372036854775808 18446744073709551616 x.

(* "no signed overflow" side conditions *)
Definition in_s8  (x : Z) : bool := (-128 <=? x) && (x <=? 127).
Definition in_s16 (x : Z) : bool := (-32768 <=? x) && (x <=? 32767).
Definition in_s32 (x : Z) : bool := (-2147483648 <=? x) && (x <=? 2147483647).
Definition in_s64 (x : Z) : bool := (-9223372036854775808 <=? x) && (x <=? 9223372036854775807).
Definition shift_ok (w n : Z) : bool := (0 <=? n) && (n <? w).
(* E1 << E2 on a signed type: E1 non-negative and E1 * 2^E2 representable *)
Definition shl_s_ok (w a n : Z) : bool := (0 <=? a) && (Z.shiftl a n <? 2 ^ (w - 1)).

Definition b2z (b : bool) : Z := if b then 1 else 0.

(* byte arrays *)
Definition rd (l : list Z) (i : Z) : Z := nth (Z.to_nat i) l 0.
Definition idx_ok (l : list Z) (i : Z) : bool := (0 <=? i) && (i <? Z.of_nat (length l)).

(* A written buffer is the list of bytes up to its high-water mark: writing at
   an index inside replaces, writing at or beyond the end extends (zero fill). *)
Fixpoint upd_nat (l : list Z) (i : nat) (v : Z) : list Z :=
  match l, i with
  | [], O => [v]
  | [], S k => 0 :: upd_nat [] k v
  | _ :: t, O => v :: t
  | x :: t, S k => x :: upd_nat t k v
  end.
Definition upd (l : list Z) (i v : Z) : list Z := upd_nat l (Z.to_nat i) v.

Fixpoint take_pad (n : nat) (l : list Z) : list Z :=
  match n with
  | O => []
  | S k => match l with [] => 0 :: take_pad k [] | x :: t => x :: take_pad k t end
  end.
(* put back what a callee wrote through (buf + off) *)
Definition splice (l : list Z) (off : Z) (sub : list Z) : list Z :=
  take_pad (Z.to_nat off) l ++ sub.

(* The little-endian host: memcpy between a scalar and a byte array. *)
Fixpoint le_bytes (n : nat) (v : Z) : list Z :=
  match n with O => [] | S k => (v mod 256) :: le_bytes k (v / 256) end.
Fixpoint le_value (l : list Z) : Z :=
  match l with [] => 0 | b :: t => b + 256 * le_value t end.
Fixpoint overwrite (l src : list Z) : list Z :=
  match src with
  | [] => l
  | b :: s => b :: overwrite (tl l) s
  end.
Definition store_le (buf : list Z) (v : Z) (n : Z) : list Z := overwrite buf (le_bytes (Z.to_nat n) v).
Definition load_le (data : list Z) (n : Z) : Z := le_value (take_pad (Z.to_nat n) data).

(* ProtobufCIntRange *)
Record IntRange := { start_value : Z; orig_index : Z }.
Definition rdr (l : list IntRange) (i : Z) : IntRange :=
  nth (Z.to_nat i) l {| start_value := 0; orig_index := 0 |}.
Definition ridx_ok (l : list IntRange) (i : Z) : bool := (0 <=? i) && (i <? Z.of_nat (length l)).

(* loops *)
Inductive step (S R : Type) := Continue (s : S) | Break (s : S) | Return (r : R).
Arguments Continue {S R}. Arguments Break {S R}. Arguments Return {S R}.
Inductive loopres (S R : Type) := LDone (s : S) | LRet (r : R) | LFuel.
Arguments LDone {S R}. Arguments LRet {S R}. Arguments LFuel {S R}.

Fixpoint while_ {S R : Type} (fuel : nat) (body : S -> step S R) (s : S) : loopres S R :=
  match fuel with
  | O => LFuel
  | Datatypes.S f =>
      match body s with
      | Continue s' => while_ f body s'
      | Break s' => LDone s'
      | Return r => LRet r
      end
  end.

Fixpoint while_ok {S R : Type} (fuel : nat) (body : S -> step S R) (okf : S -> bool) (s : S) : bool :=
  match fuel with
  | O => false
  | Datatypes.S f =>
      okf s && match body s with
               | Continue s' => while_ok f body okf s'
               | _ => true
               end
  end.

(* Returned when a loop runs out of fuel: outside the range of every C type. *)
Definition FUEL_OUT : Z := - 2 ^ 70.

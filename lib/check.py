#!/usr/bin/env python3
"""bin/check <ID> {quick|thorough} [--replay FILE]   (cwd = /verif)

Per property: (1) rebuild from /repo's current tree: regenerate the leaf layer, re-check the Coq
development, extract, build the drivers; (2) proof gate; (3) ties (leaf translation validation,
Impl <-> C correspondence, ...); (4) property oracle on the implementation; (5) verdict + evidence."""
import os, sys, hashlib, json, random, time, re, glob

sys.path.insert(0, os.path.dirname(os.path.abspath(__file__)))
sys.path.insert(0, os.path.join(os.path.dirname(os.path.dirname(os.path.abspath(__file__))), 'harness', 'gen'))
import common
from common import ROOT, BUILD, COQ, Run, sh, log
import casegen, leafgen


# ---------------------------------------------------------------- build phase (shared)
class Ctx:
    pass


def build_phase(need_gen=False):
    """returns Ctx with paths of drivers and build diagnostics; never raises on proof failures"""
    c = Ctx()
    c.errors = []
    with common.Lock():
        t0 = time.time()
        c.regen = common.regenerate()
        if not c.regen['ok']:
            c.errors.append(('translator', '\n'.join(c.regen['msgs'])))
        ok, c.coq_log = common.coq_build()
        c.coq_ok = ok
        c.coq_failed = re.findall(r'\*\*\* \[[^\]]*?([\w/]+\.vo)\] Error', c.coq_log)
        okm, msg = common.build_ocaml()
        if not okm:
            c.errors.append(('extraction', msg))
        c.model = os.path.join(BUILD, 'ocaml', 'model_driver')
        c.leaf_model = os.path.join(BUILD, 'ocaml', 'leaf_model')
        c.impl, e = common.build_c('impl_driver', os.path.join(ROOT, 'harness', 'c', 'impl_driver.c'))
        if e:
            c.errors.append(('impl_driver', e))
        c.leaf_c, e = common.build_c('leaf_driver', os.path.join(ROOT, 'harness', 'c', 'leaf_driver.c'))
        if e:
            c.errors.append(('leaf_driver', e))
        c.ref = None
        if need_gen:
            try:
                import refbuild
                c.ref = refbuild.build_ref_driver(os.path.join(BUILD, 'cxx'))
            except Exception as ex:     # noqa: BLE001
                c.errors.append(('ref_driver', str(ex)[-2000:]))
        c.build_s = time.time() - t0
    return c


HUNG = []      # driver invocations of this run that did not terminate: (program, case file, timeout, lines printed)


MODEL_CHUNK = 600       # case lines per invocation of the extracted model (each invocation has its own time limit)


def run_driver(exe, text, tag, timeout=600, extra_args=(), pre_args=()):
    if os.path.dirname(exe).endswith('ocaml') and text.startswith('ENV '):
        # the extracted model is slow on wide schemas with thousands of case lines (and the machine may be busy): run the
        # case lines in pieces, so that the time limit bounds a piece, not the whole stream (case lines are independent)
        all_lines = text.split('\n')
        try:
            k = all_lines.index('END') + 1
        except ValueError:
            k = 0
        body = [l for l in all_lines[k:] if l != '']
        if k and len(body) > MODEL_CHUNK:
            head = '\n'.join(all_lines[:k]) + '\n'
            rc_all, out_all, err_all = 0, [], ''
            for j in range(0, len(body), MODEL_CHUNK):
                rc, out, err = _run_driver(exe, head + '\n'.join(body[j:j + MODEL_CHUNK]) + '\n', tag, timeout, extra_args, pre_args)
                out_all += out
                err_all += err
                if rc != 0:
                    rc_all = rc
                    break
            return rc_all, out_all, err_all
    return _run_driver(exe, text, tag, timeout, extra_args, pre_args)


def _run_driver(exe, text, tag, timeout=600, extra_args=(), pre_args=()):
    d = os.path.join(BUILD, 'cases')
    os.makedirs(d, exist_ok=True)
    p = os.path.join(d, '%s-%d.txt' % (tag, os.getpid()))
    with open(p, 'w') as f:
        f.write(text)
    cmd = [exe] + list(pre_args) + [p] + list(extra_args)
    if os.path.dirname(exe).endswith('ocaml'):      # extracted list functions are not tail-recursive
        cmd = ['bash', '-c', 'ulimit -s unlimited 2>/dev/null || ulimit -s 1000000; exec "$0" "$@"', exe, p] + list(extra_args)
    if HUNG:
        # a driver has already failed to terminate in this run: do not wait for the next hang, the verdict is settled
        os.remove(p)
        return 124, [], 'not run: an earlier driver invocation of this check did not terminate'
    rc, out, err = sh(cmd, timeout=timeout,
                      env={'ASAN_OPTIONS': 'detect_leaks=1:abort_on_error=0:allocator_may_return_null=1',
                           'UBSAN_OPTIONS': 'print_stacktrace=1', 'TSAN_OPTIONS': 'halt_on_error=0:exitcode=66'})
    if rc == 124 and 'TIMEOUT after' in err:
        keep = os.path.join(BUILD, 'replay', 'hang-%s-%d.txt' % (tag, os.getpid()))
        os.makedirs(os.path.dirname(keep), exist_ok=True)
        os.replace(p, keep)
        HUNG.append((' '.join(cmd[:1] + list(pre_args)) if not os.path.dirname(exe).endswith('ocaml') else exe, keep, timeout, len(out.splitlines())))
        return rc, out.splitlines(), err
    os.remove(p)
    return rc, out.splitlines(), err


# ---------------------------------------------------------------- ties
def leaf_tie(run, ctx, seed, scale, be=False):
    """translation validation of the leaf layer: extracted regenerated Gallina vs the C functions
    (be: both sides with -DWORDS_BIGENDIAN, i.e. the portable byte-by-byte code)"""
    cases = leafgen.cases(seed, scale)
    text = '\n'.join(cases) + '\n'
    leaf_c = ctx.leaf_c
    if be:
        leaf_c, e = common.build_c('leaf_driver_be', os.path.join(ROOT, 'harness', 'c', 'leaf_driver.c'), ['-DWORDS_BIGENDIAN'])
        if e:
            return {'cases': 0, 'disagreements': 1, 'replay': run.replay('leaf_be_build.txt', e)}
    rc1, c_out, c_err = run_driver(leaf_c, text, 'leaf')
    rc2, m_out, m_err = run_driver(ctx.leaf_model, text, 'leafm', extra_args=['be'] if be else [], timeout=240)
    bad = common.diff_lines(c_out, m_out)
    info = {'cases': len(cases), 'disagreements': len(bad)}
    if rc1 != 0 or rc2 != 0 or bad:
        i = bad[0] if bad else min(len(c_out), len(m_out))
        rp = run.replay('leaf_tie.txt',
                        'leaf tie (translation validation) disagrees\ncase: %s\nC     : %s\nmodel : %s\nstderr: %s\n'
                        'replay: write the case line to a file F and run build/c/leaf_driver-* F and build/ocaml/leaf_model F\n'
                        % (cases[i] if i < len(cases) else '?', c_out[i] if i < len(c_out) else '<crash>',
                           m_out[i] if i < len(m_out) else '<missing: the extracted model did not get this far (exit %d)>' % rc2,
                           (c_err[-1500:] + m_err[-600:])))
        info['replay'] = rp
        info['first'] = cases[i] if i < len(cases) else '?'
    return info


def corr(run, ctx, env, lines, tag):
    """run one schema's cases through both drivers; returns (c_out, m_out, bad_indices, stderr)"""
    text = env.text() + '\n'.join(lines) + '\n'
    rc1, c_out, c_err = run_driver(ctx.impl, text, tag)
    rc2, m_out, m_err = run_driver(ctx.model, text, tag + 'm')
    bad = common.diff_lines(c_out, m_out)
    return c_out, m_out, bad, c_err, text


class Stats:
    def __init__(self):
        self.n = 0; self.kinds = {}; self.distinct = set(); self.samples = []; self.schemas = 0
        self.dist = {}

    def add(self, kind, line, nontrivial=True):
        self.n += 1
        self.kinds[kind] = self.kinds.get(kind, 0) + 1
        if nontrivial:
            self.distinct.add(hash(line))
        if len(self.samples) < 6 and len(line) < 400:
            self.samples.append(line)

    def bump(self, key):
        self.dist[key] = self.dist.get(key, 0) + 1


def report_disagreement(run, env_text, lines, c_out, m_out, bad, c_err, what):
    i = bad[0] if bad else len(c_out)
    case = lines[i] if i < len(lines) else '?'
    payload = ('%s\n--- schema + failing case (feed to build/c/impl_driver-* and build/ocaml/model_driver)\n%s%s\n'
               '--- implementation: %s\n--- model         : %s\n--- stderr tail:\n%s\n'
               % (what, env_text, case, c_out[i] if i < len(c_out) else '<driver aborted>',
                  m_out[i] if i < len(m_out) else '<missing>', c_err[-2500:]))
    return run.replay('disagreement-%d.txt' % (len(run.violations)), payload)


# ---------------------------------------------------------------- case streams
def stream_pack(rnd, env, st, n, canon=True):
    lines, msgs = [], []
    for _ in range(n):
        d = rnd.randrange(len(env.msgs))
        m = casegen.gen_msg(rnd, env, d, canon=canon)
        l = 'PACK ' + casegen.msg_text(m)
        lines.append(l); msgs.append(m)
        st.add('PACK', l)
    return lines, msgs


def stream_unpack(rnd, env, st, n, op='UNPACK'):
    """valid (canonical and re-encoded), corrupted and random inputs"""
    lines = []
    for b in casegen.special_inputs():
        for d in range(len(env.msgs)):
            l = '%s %d %s' % (op, d, casegen.hexs(b)); lines.append(l); st.add(op + ':special', l)
    for _ in range(n):
        d = rnd.randrange(len(env.msgs))
        m = casegen.gen_msg(rnd, env, d, canon=True)
        r = rnd.random()
        if r < 0.25:
            bs = casegen.encode(env, m, casegen.CANON); k = 'canonical'
        elif r < 0.65:
            o = casegen.Opts(rnd, shuffle=rnd.random() < 0.7, pad=rnd.random() < 0.5, repack=rnd.random() < 0.6,
                             split=rnd.random() < 0.5, stale=rnd.random() < 0.4, unknown=rnd.random() < 0.4)
            bs = casegen.encode(env, m, o); k = 'reencoded'
        elif r < 0.85:
            o = casegen.Opts(rnd, shuffle=True, pad=True, repack=True, split=True, stale=True, unknown=True)
            bs = casegen.corrupt(rnd, casegen.encode(env, m, o if rnd.random() < 0.5 else casegen.CANON)); k = 'corrupted'
        elif r < 0.90:
            o = casegen.Opts(rnd, shuffle=rnd.random() < 0.3, lead_unknown=rnd.random() < 0.5, bad_later=True)
            bs = casegen.encode(env, m, o); k = 'rejected-later-occurrence' if o.bad_done else 'leading-unknown'
        elif r < 0.95:
            # nearly valid: one required field left out of every message of one type, half of the time behind a leading unknown field
            reqs = [(md.idx, f.id) for md in env.msgs for f in md.fields if f.label == 'REQ' and f.default is None]
            own = [q for q in reqs if q[0] == d and q[1] == env.msgs[d].fields[0].id]
            drop = rnd.choice(own if own and rnd.random() < 0.5 else reqs) if reqs else None
            o = casegen.Opts(rnd, shuffle=rnd.random() < 0.3, lead_unknown=rnd.random() < 0.6, drop=drop)
            bs = casegen.encode(env, m, o); k = 'required-dropped' if drop else 'leading-unknown'
        elif r < 0.975:
            # a packed payload holding an over-long varint (9..22 continuation bytes), alone or between valid elements
            reps = [(md.idx, f) for md in env.msgs for f in md.fields if f.label == 'REP' and f.type in casegen.SCALARS]
            if reps:
                d, f = rnd.choice(reps)
                pay = []
                for _ in range(rnd.randint(0, 2)):
                    pay += casegen.varint(rnd.getrandbits(rnd.choice([1, 7, 14, 32, 64])))
                pay += [0x80 | rnd.randint(0, 127) for _ in range(rnd.choice([9, 10, 10, 11, 12, 22]))] + [rnd.randint(0, 127)]
                for _ in range(rnd.randint(0, 2)):
                    pay += casegen.varint(rnd.getrandbits(rnd.choice([1, 7, 32])))
                bs = casegen.key(f.id, 2) + casegen.lenpref(len(pay)) + pay; k = 'packed-overlong-varint'
            else:
                bs = [rnd.randint(0, 255) for _ in range(rnd.randint(0, 40))]; k = 'random'
        else:
            bs = [rnd.randint(0, 255) for _ in range(rnd.randint(0, 40))]; k = 'random'
        l = '%s %d %s' % (op, d, casegen.hexs(bs))
        lines.append(l); st.add(op + ':' + k, l)
        st.bump('len<16' if len(bs) < 16 else 'len<128' if len(bs) < 128 else 'len<1024' if len(bs) < 1024 else 'len>=1024')
    return lines


def envs_for(rnd, tier, n_quick, n_thorough, big_every=6, oneof_defaults=False):
    n = n_quick if tier == 'quick' else n_thorough
    out = list(casegen.corner_envs()) if oneof_defaults else []
    for i in range(n):
        out.append(casegen.gen_env(rnd, big=(i % big_every == big_every - 1), oneof_defaults=oneof_defaults and i % 3 == 1))
    return out


# ---------------------------------------------------------------- generic pieces of a check
def gate_and_ties(run, ctx, pid, seed, tier, need_leaf=True):
    """proof gate + leaf tie; returns (gate, obligations)"""
    for name, msg in ctx.errors:
        rp = run.replay('build-%s.txt' % name, 'build step %s failed:\n%s\n' % (name, msg))
        run.violation(rp, True)
    gate = common.proof_gate(pid)
    obl = common.count_obligations(pid)
    if not gate['ok']:
        rp = run.replay('proof-gate.txt',
                        'The Coq development for %s no longer checks.\nfile: %s\nfailed .vo targets: %s\n--- coqc output\n%s\n--- make log tail\n%s\n'
                        % (pid, gate['file'], ctx.coq_failed, gate['log'][-4000:], ctx.coq_log[-3000:]))
        run.proof_broken = rp
    else:
        run.proof_broken = None
    run.cov['print_assumptions'] = gate['assumptions'][:20]
    run.cov['theorems'] = gate['theorems']
    forb = common.forbidden_scan()
    if forb:
        rp = run.replay('forbidden.txt', '\n'.join(forb))
        run.violation(rp, True)
    if need_leaf and ctx.leaf_c and os.path.exists(ctx.leaf_model):
        info = leaf_tie(run, ctx, seed, 1 if tier == 'quick' else 4)
        run.cov['leaf_tie'] = info
        if info['disagreements'] or 'replay' in info:
            run.violation(info['replay'], False)
    return gate, obl


def conclude(run, gate, obl):
    """if the proof gate is broken and no concrete failing input was found, report no-failing-input-found"""
    if HUNG and not run.violations:
        prog, casefile, tmo, nl = HUNG[0]
        rp = run.replay('hang.txt', 'a driver did not terminate within %d s (it had printed %d result lines): %s\n'
                                    'case file kept at %s: run the program on it; the first case it does not answer is the failing input\n'
                                    '(the extracted model runs the Gallina regenerated from the current C sources: a change that makes a loop of the C code run '
                                    'away shows up on both sides)\n--- head of the case file\n%s\n'
                        % (tmo, nl, prog, casefile, open(casefile).read()[:3000] if os.path.exists(casefile) else ''))
        run.violation(rp, False)
    if run.proof_broken and not run.violations:
        run.violation(run.proof_broken, True)
    elif run.proof_broken:
        run.notes.append('proof gate broken: ' + run.proof_broken)
    return run.finish(gate, obl)


def run_corr_streams(run, ctx, rnd, envs, per_env, st, ops, tag, oracle=None):
    """ops: list of callables (rnd, env, st, n) -> lines.  oracle(env, lines, c_out) -> list of (idx, msg)"""
    tot_bad = 0
    for ei, env in enumerate(envs):
        st.schemas += 1
        lines = []
        for op in ops:
            r = op(rnd, env, st, per_env)
            lines += r[0] if isinstance(r, tuple) else r
        c_out, m_out, bad, c_err, text = corr(run, ctx, env, lines, tag)
        if bad or len(c_out) != len(lines):
            tot_bad += 1
            if len(run.violations) < 3:
                rp = report_disagreement(run, env.text(), lines, c_out, m_out, bad, c_err,
                                         'Impl <-> C correspondence (%s) disagrees' % tag)
                run.violation(rp, False)
        if oracle:
            for idx, msg in oracle(env, lines, c_out):
                if len(run.violations) < 3:
                    rp = run.replay('oracle-%d.txt' % len(run.violations),
                                    'property oracle on the implementation: %s\n--- schema + case\n%s%s\n--- implementation output\n%s\n'
                                    % (msg, env.text(), lines[idx], c_out[idx] if idx < len(c_out) else '<none>'))
                    run.violation(rp, False)
    return tot_bad


def finish_stats(run, st, rule):
    run.cov['evaluations'] = st.n
    run.cov['distinct_nontrivial'] = len(st.distinct)
    run.cov['rule'] = rule
    run.cov['samples'] = st.samples or ['-']
    run.cov['case_kinds'] = st.kinds
    run.cov['input_distribution'] = st.dist
    run.cov['schemas'] = st.schemas


# ---------------------------------------------------------------- property checks
def check_C18(tier, seed):
    run = Run('C18', tier, seed)
    ctx = build_phase()
    gate, obl = gate_and_ties(run, ctx, 'C18', seed, tier, need_leaf=False)
    rnd = random.Random(seed * 1000003 + 18)
    st = Stats()
    n = 400 if tier == 'quick' else 6000
    env = casegen.Env([casegen.MsgDesc(0, [], 0, 1)])
    fixed = ['BUF 4 - 3 3 10', 'BUF 1 - 0 1 1 1 5', 'BUF 4 0 3 3 10', 'BUF 2 - 3 6 0 1 7', 'BUF 8 1+ 8 1 20 100',
             'BUF 3 0,2 2 2 2 2 2 2 2', 'BUF 1 - 1 1 2 4 8 16 32 64 128 256 512 1024 2048']
    lines = list(fixed)
    for l in fixed:
        st.add('BUF:corpus', l)
    for _ in range(n):
        l = casegen.gen_buf_case(rnd)
        lines.append(l); st.add('BUF', l)
        st.bump('plan:' + ('none' if ' - ' in l else 'refusals'))
    c_out, m_out, bad, c_err, text = corr(run, ctx, env, lines, 'buf')

    def oracle(line, out):
        # contents must be the concatenation of accepted appends; len <= alloced; nothing outstanding; scratch never freed
        t = out.split()
        if t[0] != 'BF':
            return 'driver error: ' + out
        alloced, ln, must_free, hexd = int(t[1]), int(t[2]), int(t[3]), t[4]
        freed_scratch, outstanding = int(t[8]), int(t[9])
        if ln > alloced:
            return 'len > alloced'
        if freed_scratch:
            return 'scratch array was freed'
        if outstanding:
            return 'heap blocks outstanding after CLEAR'
        toks = line.split()
        if toks[2] == '-':
            lens = list(map(int, toks[3:]))
            exp = bytes(((i * 7 + 3) & 255) for i in range(sum(lens)))
            got = bytes.fromhex(hexd) if hexd != '-' else b''
            if got != exp or ln != len(exp):
                return 'contents differ from the concatenation of the appended chunks'
        return None
    if bad or len(c_out) != len(lines):
        run.violation(report_disagreement(run, env.text(), lines, c_out, m_out, bad, c_err,
                                          'buffer model <-> protobuf_c_buffer_simple_append disagree'), False)
    for i, (l, o) in enumerate(zip(lines, c_out)):
        msg = oracle(l, o)
        if msg and len(run.violations) < 3:
            run.violation(run.replay('oracle-%d.txt' % i, '%s\ncase: %s\nimplementation: %s\n(schema: %s)\n' % (msg, l, o, env.text())), False)
    # streaming claim: pack_to_buffer delivers, over however many append calls, exactly the bytes pack writes
    envs = envs_for(rnd, tier, 5, 60, oneof_defaults=True)
    # the streaming claim covers everything the serialisers define, including a required sub-message pointer left NULL
    # (written as an empty message by all three; protobuf_c_message_check rejects such a message, so C02 / C19 do not use it)
    casegen.NULL_REQ[0] = 0.2
    try:
        run_corr_streams(run, ctx, rnd, envs, 30 if tier == 'quick' else 100, st,
                         [lambda r, e, s, n: stream_pack(r, e, s, n, canon=False)], 'stream', pack_oracle_factory(None))
    finally:
        casegen.NULL_REQ[0] = 0.0
    finish_stats(run, st, 'BUF histories: capacity in {1,2,3,4,7,8,16,100}, lengths aimed at free-1/free/free+1/multi-doubling, '
                          'failure plans (none / k-th / k-th and later / subsets); distinct = distinct case lines; '
                          'every case is run on the C buffer (ASan) and on the extracted model and the observations are diffed; '
                          'PACK cases (corner schemas + random schemas, well-formed messages): pack vs concatenated pack_to_buffer chunks on C and model')
    run.assumptions = ['size_t arithmetic modelled without wrap-around (sizes < 2^63)', 'capacity >= 1 (capacity 0 does not terminate: outside the quantifier)']
    return conclude(run, gate, obl)


def pack_oracle_factory(msgs_by_env):
    def oracle(env, lines, c_out):
        out = []
        for i, (l, o) in enumerate(zip(lines, c_out)):
            if not l.startswith('PACK '):
                continue
            t = o.split()
            if len(t) < 7 or t[0] != 'P':
                out.append((i, 'implementation driver error: ' + o[:200])); continue
            size, ret, hexd, overrun, retb, nch = int(t[1]), int(t[2]), t[3], int(t[4]), int(t[5]), int(t[6])
            chunks = t[7:7 + nch]
            cat = ''.join(c for c in chunks if c != '-')
            packed = '' if hexd == '-' else hexd
            if overrun:
                out.append((i, 'pack wrote outside the first get_packed_size bytes'))
            elif not (size == ret == retb == len(packed) // 2):
                out.append((i, 'get_packed_size / pack / pack_to_buffer disagree on the length (%d/%d/%d/%d)' % (size, ret, retb, len(packed) // 2)))
            elif cat != packed:
                out.append((i, 'pack_to_buffer delivered different bytes than pack'))
        return out
    return oracle


def check_C02(tier, seed):
    run = Run('C02', tier, seed)
    ctx = build_phase()
    gate, obl = gate_and_ties(run, ctx, 'C02', seed, tier)
    rnd = random.Random(seed * 1000003 + 2)
    st = Stats()
    envs = envs_for(rnd, tier, 12, 120, oneof_defaults=True)
    per_env = 40 if tier == 'quick' else 120
    run_corr_streams(run, ctx, rnd, envs, per_env, st,
                     [lambda r, e, s, n: stream_pack(r, e, s, n, canon=False)], 'pack', pack_oracle_factory(None))
    finish_stats(run, st, 'random schemas (17 types x labels x proto2/proto3, oneofs, nesting, >128 fields) x random well-formed '
                          'messages with boundary values and repeated counts around 127/128; each PACK case runs get_packed_size, '
                          'pack (exact-size block + canary) and pack_to_buffer on the C library and on the extracted model; '
                          'distinct = distinct case lines')
    return conclude(run, gate, obl)


def check_C14(tier, seed):
    run = Run('C14', tier, seed)
    ctx = build_phase()
    gate, obl = gate_and_ties(run, ctx, 'C14', seed, tier)
    # field lookups through the public parser entry point on random descriptors (sparse / dense / huge ids)
    rnd = random.Random(seed * 1000003 + 14)
    st = Stats()
    envs = envs_for(rnd, tier, 10, 80, big_every=3)
    run_corr_streams(run, ctx, rnd, envs, 30 if tier == 'quick' else 80, st,
                     [lambda r, e, s, n: stream_unpack(r, e, s, n)], 'lookup')
    li = run.cov.get('leaf_tie', {})
    finish_stats(run, st, 'int_range_lookup: boundary-dense range tables incl. INT32_MIN/INT32_MAX x keys (present, +-1, extremes, random) in the '
                          'leaf tie (%s cases); field-number lookup exercised through unpack on random descriptors with sparse, dense and '
                          'huge ids (every key on the wire is one lookup); distinct = distinct case lines' % li.get('cases'))
    import gencheck
    run.cov['generator_tie'] = gencheck.generator_part(run, 'C14', tier, seed)
    run.notes.append('name and number lookups on real generated descriptors (messages, enums incl. aliases, services): lines ML MK EL EK SL of the generator tie')
    return conclude(run, gate, obl)


C16_VARIANTS = [
    ('bigendian', ['-DWORDS_BIGENDIAN'], True, 'gcc'),
    ('ndebug', ['-DNDEBUG'], True, 'gcc'),
    ('O0', ['-O0'], True, 'gcc'),
    ('O2-nosan', ['-O2'], False, 'gcc'),
    ('clang-O2', ['-O2'], False, 'clang'),
]


def canon_chunks(lines):
    """the number of append calls is not observable behaviour of the wire format: join pack_to_buffer chunks"""
    out = []
    for l in lines:
        t = l.split(' ')
        if t[0] == 'P' and len(t) >= 7 and t[6].isdigit():
            t = t[:6] + [''.join(c for c in t[7:] if c != '-') or '-']
            l = ' '.join(t)
        out.append(l)
    return out


def check_C16(tier, seed):
    run = Run('C16', tier, seed)
    ctx = build_phase()
    gate, obl = gate_and_ties(run, ctx, 'C16', seed, tier)
    info = leaf_tie(run, ctx, seed, 1 if tier == 'quick' else 3, be=True)
    run.cov['leaf_tie_bigendian'] = info
    if info.get('disagreements') or 'replay' in info:
        run.violation(info.get('replay'), False)
    rnd = random.Random(seed * 1000003 + 16)
    st = Stats()
    envs = envs_for(rnd, tier, 6, 40)
    per_env = 25 if tier == 'quick' else 80
    variants = []
    for name, flags, san, cc in C16_VARIANTS:
        exe, e = common.build_c('impl_' + name, os.path.join(ROOT, 'harness', 'c', 'impl_driver.c'), flags, san, cc)
        if e:
            run.violation(run.replay('build-%s.txt' % name, e), True)
        else:
            variants.append((name, exe))
    nmis = 0
    for env in envs:
        st.schemas += 1
        lines, _ = stream_pack(rnd, env, st, per_env, canon=False)
        lines += stream_unpack(rnd, env, st, per_env, op='RT')
        text = env.text() + '\n'.join(lines) + '\n'
        rc0, ref_out, ref_err = run_driver(ctx.impl, text, 'c16ref')
        rcm, m_out, m_err = run_driver(ctx.model, text, 'c16m')
        for name, exe in [('default', ctx.impl)] + variants:
            if name == 'default':
                out, err = ref_out, ref_err
            else:
                rc, out, err = run_driver(exe, text, 'c16' + name)
            bad = common.diff_lines(canon_chunks(out), canon_chunks(m_out))
            if bad or len(out) != len(lines):
                nmis += 1
                if len(run.violations) < 3:
                    run.violation(report_disagreement(run, env.text(), lines, out, m_out, bad, err,
                                                      'build variant "%s" disagrees with the model (and hence with the other builds)' % name), False)
    run.cov['build_variants'] = ['default'] + [v[0] for v in variants]
    finish_stats(run, st, 'the PACK and RT (unpack/check/size/pack/stream/reparse) case streams run against builds {default, -DWORDS_BIGENDIAN, '
                          '-DNDEBUG, -O0, -O2, clang}; every build must print what the extracted model prints; distinct = distinct case lines')
    # schema-level options: the same schemas compiled with gen_init_helpers=false / CODE_SIZE / c_package ... must
    # give the same descriptors (names aside) and the same initial state: generator tie + initial-state oracle
    import gencheck
    run.cov['generator_tie'] = gencheck.generator_part(run, 'C16', tier, seed, n_quick=40, n_thorough=400)
    return conclude(run, gate, obl)


def check_C17(tier, seed):
    run = Run('C17', tier, seed)
    ctx = build_phase()
    gate, obl = gate_and_ties(run, ctx, 'C17', seed, tier, need_leaf=False)
    exe, e = common.build_c('impl_tsan', os.path.join(ROOT, 'harness', 'c', 'impl_driver.c'),
                            ['-fsanitize=thread', '-lpthread'], san=False)
    rnd = random.Random(seed * 1000003 + 17)
    st = Stats()
    if e:
        run.violation(run.replay('build-tsan.txt', e), True)
    else:
        envs = envs_for(rnd, tier, 6, 40, oneof_defaults=True)      # with the hand-made schemas: defaults of every kind are shared objects
        # always a schema with more than 128 fields (the parser's required-fields bitmap then lives outside the stack frame)
        envs.append(casegen.gen_env(rnd, nmsgs=2, big=True, wide=True))
        per_env = 40 if tier == 'quick' else 150
        nthreads = 8
        tally_shared = [0]
        for env in envs:
            st.schemas += 1
            lines, _ = stream_pack(rnd, env, st, per_env, canon=False)
            lines += stream_unpack(rnd, env, st, per_env, op='RT')
            lines += ['UNPACKA %s -' % l.split(' ', 1)[1] for l in stream_unpack(rnd, env, Stats(), per_env // 2)]
            # queries of the shared descriptors, by number and by name, hits and misses, the same one from several threads
            for _ in range(per_env):
                md = rnd.choice(env.msgs)
                fid = rnd.choice([f.id for f in md.fields]) if md.fields and rnd.random() < 0.8 else rnd.randint(1, 70000)
                l = 'LOOKUP %d %d' % (md.idx, fid)
                lines.extend([l] * rnd.choice([1, 1, 8]))
                st.add('LOOKUP', l)
            # enum lookups by name (canonical names, aliases, misses) and by number on a shared enum descriptor with aliases
            for _ in range(per_env):
                l = rnd.choice(['ENUMNAME ' + rnd.choice(['VALUE_A', 'VALUE_AA', 'VALUE_B', 'VALUE_C', 'VALUE_D', 'VALUE_E', 'VALUE_F', 'VALUE_FF',
                                                          'VALUE', 'VALUE_G', 'VALUE_AB', 'value_a']),
                                'ENUMNUM %d' % rnd.choice([0, 42, 666, 1000, 1, 41, 43, 999, 1001, 4294967295])])
                lines.extend([l] * rnd.choice([1, 4, 8]))
                st.add('ENUMLOOKUP', l)
            # method lookups by name on two service descriptors that declare the same names in opposite orders
            for _ in range(per_env):
                nm = rnd.choice(['Alpha', 'Bravo', 'Charlie', 'Delta', 'Echo', 'Foxtrot', 'Golf', 'Hotel', 'Alph', 'Hotels', 'India', 'alpha'])
                for w in rnd.sample([0, 1], 2):
                    l = 'METHODNAME %d %s' % (w, nm)
                    lines.extend([l] * rnd.choice([1, 4]))
                    st.add('METHODLOOKUP', l)
            rnd.shuffle(lines)
            text = env.text() + '\n'.join(lines) + '\n'
            rc0, seq_out, seq_err = run_driver(ctx.impl, text, 'c17seq')
            rc1, mt_out, mt_err = run_driver(exe, text, 'c17mt', pre_args=['-j', str(nthreads)])
            races = mt_err.count('WARNING: ThreadSanitizer')
            bad = common.diff_lines(seq_out, mt_out)
            # the driver compares every shared object (descriptors, default values, the default allocator) with a snapshot
            # taken before the first call: the library must not have written to any of them
            shared = [w for w, o in (('sequential run', seq_out), ('threaded run', mt_out)) if 'SHARED-STATE-CHANGED' in o]
            outside = [w for w, o in (('sequential run', seq_out), ('threaded run', mt_out)) if any(x.startswith('E OUTSIDE') or x.startswith('V OUTSIDE') for x in o)]
            if outside:
                bad = bad + ['an enum / method lookup returned a pointer that is not an entry of the shared descriptor (E OUTSIDE / V OUTSIDE) in the ' + ' and the '.join(outside)]
            if shared:
                bad = bad + ['SHARED-STATE-CHANGED (a descriptor, a default value or the default allocator was written to) in the ' + ' and the '.join(shared)]
            tally_shared[0] += 1
            if races or bad or rc1 not in (0,):
                if len(run.violations) < 3:
                    rp = run.replay('tsan-%d.txt' % len(run.violations),
                                    'threads=%d; ThreadSanitizer reports: %d; lines differing from the sequential run: %s\n'
                                    '--- schema + cases\n%s\n--- TSan output (tail)\n%s\n' %
                                    (nthreads, races, bad[:5], text[:20000], mt_err[-6000:]))
                    run.violation(rp, False)
        run.cov['threads'] = nthreads
        run.cov['shared_state_snapshots_compared'] = 2 * tally_shared[0]
    finish_stats(run, st, '%d threads run disjoint case streams (PACK, RT, allocator-instrumented unpack) against one shared set of descriptors '
                          'and the default allocator under ThreadSanitizer; per-line output must equal the sequential run and TSan must be silent; '
                          'distinct = distinct case lines' % 8)
    run.assumptions = ['the footprint of the compiled code (reads shared descriptors/defaults, writes only caller-owned memory) is observed by TSan, not proved']
    return conclude(run, gate, obl)


def domain_check(run, ctx, env, msgs_lines, what):
    """model only: which fraction of the generated messages lies in the domain of the theorem (wf / canonical)"""
    lines = ['WFCANON ' + l.split(' ', 1)[1] for l in msgs_lines if l.startswith('PACK ')]
    if not lines:
        return 0, 0, 0
    text = env.text() + '\n'.join(lines) + '\n'
    rc, out, err = run_driver(ctx.model, text, 'dom')
    wf = sum(1 for o in out if o.startswith('W 1'))
    canon = sum(1 for o in out if o.startswith('W 1 1'))
    envok = sum(1 for o in out if o.endswith(' 1'))
    return wf, canon, envok


def check_C01(tier, seed):
    run = Run('C01', tier, seed)
    ctx = build_phase()
    gate, obl = gate_and_ties(run, ctx, 'C01', seed, tier)
    rnd = random.Random(seed * 1000003 + 1)
    st = Stats()
    envs = envs_for(rnd, tier, 12, 100, oneof_defaults=True)
    per_env = 40 if tier == 'quick' else 120
    in_dom = [0, 0, 0, 0]
    wfd = {'messages': 0, 'normal_form_is_canonical': 0, 'implementation_returns_normal_form': 0}
    for env in envs:
        st.schemas += 1
        lines, msgs = stream_pack(rnd, env, st, per_env, canon=True)
        c_out, m_out, bad, c_err, text = corr(run, ctx, env, lines, 'c01p')
        if bad or len(c_out) != len(lines):
            if len(run.violations) < 3:
                run.violation(report_disagreement(run, env.text(), lines, c_out, m_out, bad, c_err,
                                                  'Impl <-> C correspondence (pack) disagrees'), False)
            continue
        wf, canon, envok = domain_check(run, ctx, env, lines, 'canon')
        in_dom[0] += len(lines); in_dom[1] += wf; in_dom[2] += canon; in_dom[3] += envok
        # second stage: parse what the implementation packed, compare with the original message text
        ulines = []
        for l, o in zip(lines, c_out):
            t = o.split()
            ulines.append('UNPACK %s %s' % (l.split()[2], t[3]))
        for l in ulines:
            st.add('UNPACK:packed', l)
        c2, m2, bad2, c_err2, text2 = corr(run, ctx, env, ulines, 'c01u')
        if bad2 or len(c2) != len(ulines):
            if len(run.violations) < 3:
                run.violation(report_disagreement(run, env.text(), ulines, c2, m2, bad2, c_err2,
                                                  'Impl <-> C correspondence (unpack of packed bytes) disagrees'), False)
        for i, (l, o) in enumerate(zip(lines, c2)):
            want = 'U ' + l.split(' ', 1)[1]
            if o != want and len(run.violations) < 3:
                rp = run.replay('oracle-%d.txt' % len(run.violations),
                                'pack then unpack does not return the original message (implementation)\n--- schema\n%s--- original\n%s\n'
                                '--- packed bytes\n%s\n--- unpacked\n%s\n' % (env.text(), l, ulines[i], o))
                run.violation(rp, False)
        # hand-built (well-formed, not canonical) messages: pack on C, unpack the bytes on C, compare with the
        # normal form the model computes (Impl/WNorm.v); the hypothesis of C01_roundtrip_to_normal_form is evaluated
        wlines, wmsgs = stream_pack(rnd, env, st, per_env // 2, canon=False)
        wc_out, wm_out, wbad, wc_err, _t = corr(run, ctx, env, wlines, 'c01w')
        if wbad or len(wc_out) != len(wlines):
            if len(run.violations) < 3:
                run.violation(report_disagreement(run, env.text(), wlines, wc_out, wm_out, wbad, wc_err,
                                                  'Impl <-> C correspondence (pack of hand-built messages) disagrees'), False)
            continue
        nl = ['WNORM ' + l.split(' ', 1)[1] for l in wlines]
        rcn, n_out, n_err = run_driver(ctx.model, env.text() + '\n'.join(nl) + '\n', 'c01n')
        ul2 = ['UNPACK %s %s' % (l.split()[2], o.split()[3]) for l, o in zip(wlines, wc_out)]
        rcu, u_out, u_err = run_driver(ctx.impl, env.text() + '\n'.join(ul2) + '\n', 'c01wu')
        for k, l in enumerate(wlines):
            wfd['messages'] += 1
            t = n_out[k].split(' ', 2) if k < len(n_out) else ['WN', '0', '']
            if t[1].endswith('h'):
                # well-formed, well-typed, accepted by message_check: C01_roundtrip_of_every_checked_well_typed_message applies
                wfd['wf_typed_checked'] = wfd.get('wf_typed_checked', 0) + 1
                t[1] = t[1][:-1]
                if t[1] != '1' and len(run.violations) < 3:
                    rp = run.replay('theorem-%d.txt' % len(run.violations),
                                    'the extracted predicates contradict theorem checked_typed_canon: wf, typed, check-accepted, yet the normal form is not canonical\n--- schema\n%s--- message\n%s\n' % (env.text(), l))
                    run.violation(rp, True)
            if t[1] != '1':
                continue                      # outside the theorem's hypothesis: nothing claimed
            wfd['normal_form_is_canonical'] += 1
            want = t[2]
            got = u_out[k] if k < len(u_out) else '<driver aborted>'
            if got == want:
                wfd['implementation_returns_normal_form'] += 1
            elif len(run.violations) < 3:
                rp = run.replay('oracle-%d.txt' % len(run.violations),
                                'pack then unpack of a hand-built message does not return its normal form (implementation)\n%s\n--- schema\n%s--- message\n%s\n'
                                '--- packed bytes\n%s\n--- unpacked by protobuf-c\n%s\n--- normal form (model)\n%s\n'
                                % (first_diff(got, want), env.text(), l, ul2[k], got[:3000], want[:3000]))
                run.violation(rp, False)

    # the hypothesis env_ok of the round-trip theorem is "what the generator guarantees about descriptors": the message and
    # field descriptors the real generator emits (ids, labels, types, quantifiers, flags, ranges) are compared with the
    # generator model and with the schema (initial values and defaults are C12's)
    import gencheck
    run.cov['generator_tie'] = gencheck.generator_part(run, 'C01', tier, seed, n_quick=25, n_thorough=300)
    run.cov['hand_built_messages'] = wfd
    run.cov['domain'] = {'messages': in_dom[0], 'wf_msg': in_dom[1], 'canon_msg': in_dom[2], 'env_ok': in_dom[3],
                         'note': 'generated messages that satisfy the hypotheses of the C01 theorem, evaluated with the extracted predicates'}
    finish_stats(run, st, 'random schemas x random canonical messages (boundary scalars, NaN payloads, -0.0, empty and long strings/bytes, '
                          'repeated counts around 127/128, nesting, oneofs, unknown fields): PACK on C and model, then UNPACK of the '
                          "implementation's bytes on C and model, and the parsed message must print as the original; distinct = distinct case lines")
    return conclude(run, gate, obl)


def check_C19(tier, seed):
    run = Run('C19', tier, seed)
    ctx = build_phase()
    gate, obl = gate_and_ties(run, ctx, 'C19', seed, tier)
    rnd = random.Random(seed * 1000003 + 19)
    st = Stats()
    envs = envs_for(rnd, tier, 14, 120, oneof_defaults=True)
    per_env = 50 if tier == 'quick' else 150
    tally = {'planted': 0, 'spec_defect': 0, 'accepted': 0, 'rejected': 0, 'accepted_ok': 0}
    for env in envs:
        st.schemas += 1
        lines, planted = [], []
        for _ in range(per_env):
            d = rnd.randrange(len(env.msgs))
            m = casegen.gen_msg(rnd, env, d, canon=rnd.random() < 0.5)
            p = False
            if rnd.random() < 0.65:
                taken = set()
                for _k in range(rnd.choice([1, 1, 1, 2, 3])):
                    p = casegen.plant_defect(rnd, env, m, 0, taken) or p
            l = 'CHECK ' + casegen.msg_text(m)
            lines.append(l); planted.append(p)
            st.add('CHECK:planted' if p else 'CHECK:clean', l)
        c_out, m_out, bad, c_err, text = corr(run, ctx, env, lines, 'c19')
        if bad or len(c_out) != len(lines):
            if len(run.violations) < 3:
                run.violation(report_disagreement(run, env.text(), lines, c_out, m_out, bad, c_err,
                                                  'Impl <-> C correspondence (message_check, then size/pack/pack_to_buffer/unpack in a child) disagrees'), False)
            if len(c_out) != len(lines):
                continue
        # the specification predicate of the theorem, evaluated by the extracted model
        dl = ['DEFECT ' + l.split(' ', 1)[1] for l in lines]
        rc, d_out, d_err = run_driver(ctx.model, env.text() + '\n'.join(dl) + '\n', 'c19d')
        for i, (l, o) in enumerate(zip(lines, c_out)):
            t = o.split()
            spec = d_out[i] == 'D 1' if i < len(d_out) else False
            tally['planted'] += planted[i]; tally['spec_defect'] += spec
            msg = None
            if len(t) < 3 or t[0] != 'C':
                msg = 'unexpected driver output'
            else:
                if t[1] == '1':
                    tally['accepted'] += 1
                    if t[2] == 'OK':
                        tally['accepted_ok'] += 1
                    else:
                        msg = 'the check accepted the message but serialising / re-parsing it ended with ' + t[2]
                    if spec or planted[i]:
                        msg = 'the message has a defect (generator planted=%s, defect_msg=%s) but the check accepted it' % (planted[i], spec)
                else:
                    tally['rejected'] += 1
            if planted[i] and not spec and msg is None and i < len(d_out):
                msg = 'harness inconsistency: generator planted a defect that Spec/Defect.v does not recognise'
            if msg and len(run.violations) < 3:
                rp = run.replay('oracle-%d.txt' % len(run.violations),
                                '%s\n--- schema + case\n%s%s\n--- implementation output\n%s\n--- model defect_msg\n%s\n'
                                % (msg, env.text(), l, o, d_out[i] if i < len(d_out) else '?'))
                run.violation(rp, False)
    run.cov['verdicts'] = tally
    finish_stats(run, st, 'random schemas x random messages (half canonical, half merely well-formed), 65% with 1-3 defects planted at random '
                          'depth (null required string/sub-message, null repeated element, bytes with length and no data in required / optional(has 0,1,2) / '
                          'implicit-presence / oneof / repeated fields, count without array): CHECK on C (child process runs get_packed_size, pack, '
                          'pack_to_buffer, unpack under ASan) and on the model; oracle: planted or defect_msg => rejected; accepted => child OK')
    return conclude(run, gate, obl)


def check_C11(tier, seed):
    run = Run('C11', tier, seed)
    ctx = build_phase()
    gate, obl = gate_and_ties(run, ctx, 'C11', seed, tier)
    rnd = random.Random(seed * 1000003 + 11)
    st = Stats()
    envs = envs_for(rnd, tier, 14, 120, big_every=4, oneof_defaults=True)
    # always: schemas whose first message has more than 128 fields (heap-allocated required-fields bitmap)
    envs = [casegen.gen_env(rnd, nmsgs=rnd.randint(1, 3), big=True, wide=True) for _ in range(2 if tier == 'quick' else 8)] + envs
    # ... and one with 300 fields: required fields at indices beyond 255
    envs = [casegen.gen_env(rnd, nmsgs=2, big=True, wide=300)] + envs
    per_env = 40 if tier == 'quick' else 120
    tally = {'dropped_expected_fail': 0, 'complete_expected_ok': 0}
    for env in envs:
        st.schemas += 1
        reqs = [(m.idx, f.id) for m in env.msgs for f in m.fields if f.label == 'REQ' and f.default is None]
        lines, expect = [], []
        for _ in range(per_env):
            d = rnd.randrange(len(env.msgs))
            m = casegen.gen_msg(rnd, env, d, canon=True)
            drop = rnd.choice(reqs) if reqs and rnd.random() < 0.6 else None
            o = casegen.Opts(rnd, shuffle=rnd.random() < 0.5, pad=rnd.random() < 0.3, repack=rnd.random() < 0.3,
                             unknown=rnd.random() < 0.3, drop=drop)
            bs = casegen.encode(env, m, o)
            l = 'UNPACK %d %s' % (d, casegen.hexs(bs))
            must_fail = drop is not None and casegen.contains_type(env, m, drop[0])
            lines.append(l); expect.append(must_fail)
            st.add('UNPACK:required-dropped' if must_fail else 'UNPACK:complete', l)
            tally['dropped_expected_fail' if must_fail else 'complete_expected_ok'] += 1
        # complete messages whose embedded message arrives in two occurrences (each complete): must be accepted
        for d, bs, kind in casegen.merge_corner_inputs(rnd, env, 9 if tier == 'quick' else 24):
            l = 'UNPACK %d %s' % (d, casegen.hexs(bs))
            lines.append(l); expect.append(False)
            st.add('UNPACK:complete-two-occurrences-' + kind, l)
            tally['complete_expected_ok'] += 1
        # systematic: every required field without default (first, last, beyond index 127 first; at most 24 per schema) left out of
        # a message of its own type and of a message embedding it, plainly and behind a leading unknown field
        order = sorted(reqs, key=lambda r: (0 if [f.id for f in env.msgs[r[0]].fields].index(r[1]) in (0, len(env.msgs[r[0]].fields) - 1)
                                                  or [f.id for f in env.msgs[r[0]].fields].index(r[1]) >= 128 else 1, rnd.random()))
        for drop in order[:24]:
            for lead in (False, True):
                tops = [drop[0]] + [rnd.randrange(len(env.msgs)) for _ in range(2)]
                for d in tops:
                    m = casegen.gen_msg(rnd, env, d, canon=True)
                    if not casegen.contains_type(env, m, drop[0]):
                        continue
                    bs = casegen.encode(env, m, casegen.Opts(rnd, drop=drop, lead_unknown=lead))
                    l = 'UNPACK %d %s' % (d, casegen.hexs(bs))
                    lines.append(l); expect.append(True)
                    st.add('UNPACK:required-dropped-systematic' + ('-leading-unknown' if lead else ''), l)
                    tally['dropped_expected_fail'] += 1
        # plus arbitrary inputs: the correspondence covers the required test on them too
        extra = stream_unpack(rnd, env, st, per_env // 2)
        c_out, m_out, bad, c_err, text = corr(run, ctx, env, lines + extra, 'c11')
        # the verdict on a message must not depend on what other threads are parsing at the same time (the bookkeeping of the
        # required fields is per call): the same cases on eight threads must give the sequential answers
        rcj, j_out, j_err = run_driver(ctx.impl, text, 'c11j', pre_args=['-j', '8'])
        tally['threaded_cases'] = tally.get('threaded_cases', 0) + len(j_out)
        jbad = common.diff_lines(c_out, j_out)
        if jbad and len(c_out) == len(lines) + len(extra):
            i = jbad[0]
            viol(run, 'oracle', 'a verdict differs when the same cases run on eight threads (required-field bookkeeping shared between calls?)\n--- schema + case\n%s%s\n--- sequential\n%s\n--- threaded\n%s\n'
                 % (env.text(), (lines + extra)[i] if i < len(lines + extra) else '?', c_out[i][:1500] if i < len(c_out) else '<none>', j_out[i][:1500] if i < len(j_out) else '<none>'))
        if bad or len(c_out) != len(lines) + len(extra):
            if len(run.violations) < 3:
                run.violation(report_disagreement(run, env.text(), lines + extra, c_out, m_out, bad, c_err,
                                                  'Impl <-> C correspondence (unpack) disagrees'), False)
            if len(c_out) != len(lines) + len(extra):
                continue
        for i, (l, o) in enumerate(zip(lines, c_out)):
            msg = None
            if expect[i] and o != 'U FAIL':
                msg = 'a required field without default is missing from an embedded or top-level message, yet parsing succeeded'
            elif not expect[i] and o == 'U FAIL':
                msg = 'a complete message (every required field present; only optional / repeated / oneof fields absent) was rejected'
            if msg and len(run.violations) < 3:
                rp = run.replay('oracle-%d.txt' % len(run.violations), '%s\n--- schema + case\n%s%s\n--- implementation output\n%s\n' % (msg, env.text(), l, o[:2000]))
                run.violation(rp, False)
    run.cov['expectations'] = tally
    finish_stats(run, st, 'random schemas (up to 200 fields, >128 for the heap bitmap) x canonical messages encoded by the Python reference encoder '
                          '(shuffled, padded, repacked, unknown fields interleaved); in 60% one required field without default is left out of every '
                          'message of one type (top level or embedded at any depth): oracle FAIL iff that type occurs; otherwise must parse; '
                          'plus the corrupted / random stream for the correspondence')
    return conclude(run, gate, obl)


def gen_check(pid, rule):
    def chk(tier, seed):
        import gencheck
        run = Run(pid, tier, seed)
        ctx = build_phase()
        gate, obl = gate_and_ties(run, ctx, pid, seed, tier, need_leaf=(pid == 'C14'))
        if pid == 'C12':
            # presence decides what is written: pack correspondence on schemas with every implicit-presence type,
            # defaults of every kind, has flags 0/1/2, default pointers; oracle: the three serialisers agree
            rnd = random.Random(seed * 1000003 + 12)
            st12 = Stats()
            envs = envs_for(rnd, tier, 4, 40, oneof_defaults=True)
            run_corr_streams(run, ctx, rnd, envs, 40 if tier == 'quick' else 120, st12,
                             [lambda r, e, s, n: stream_pack(r, e, s, n, canon=False)], 'presence', pack_oracle_factory(None))
            run.cov['presence_stream'] = {'cases': st12.n, 'schemas': st12.schemas}
        stats = gencheck.generator_part(run, pid, tier, seed)
        run.cov['generator_tie'] = stats
        run.cov['evaluations'] = stats['cases']
        run.cov['distinct_nontrivial'] = stats['cases']
        run.cov['rule'] = rule
        run.cov['samples'] = ['fixed protos under harness/gen/fixed_protos', 'protogen seeds %d..' % (seed * 100000)]
        return conclude(run, gate, obl)
    return chk


GEN_RULE = ('each case = one schema (9 fixed protos + random schemas from harness/gen/protogen.py: proto2/proto3, all scalar types, nesting, '
            'imports, oneofs, enums with negative/sparse/aliased/extreme values, services with 0..9 methods, protobuf-c options, every kind of '
            'default): protoc + protoc-gen-c built from the current tree, gcc -std=c99/-std=c11, g++ on the header, reflective dump of the '
            'compiled descriptors, lookups through the real library, service stubs called; the extracted Coq model of the generator prints the '
            'same lines from the schema; compared per line kind; plus an oracle that checks the real output against the schema itself')


# ---------------------------------------------------------------- checks tied to the reference implementation (libprotobuf)
def run_ref(ctx, env, lines, tag):
    rc, out, err = run_driver(ctx.ref, env.text() + '\n'.join(lines) + '\n', tag, pre_args=['--lax-utf8'])
    return out, err


def first_diff(a, b):
    """the first differing token of two message lines, with some context"""
    x, y = a.split(' '), b.split(' ')
    for k in range(max(len(x), len(y))):
        if k >= len(x) or k >= len(y) or x[k] != y[k]:
            return 'first difference at token %d: ...%s  <>  ...%s' % (k, ' '.join(x[max(0, k - 6):k + 4])[:400], ' '.join(y[max(0, k - 6):k + 4])[:400])
    return 'no difference'


def viol(run, name, text):
    if len(run.violations) < 3:
        run.violation(run.replay('%s-%d.txt' % (name, len(run.violations)), text), False)


def spec_reader_tie(run, ctx, env, lines, c_out, rnd, tally):
    """Spec/WireMsg.v's reference reader against libprotobuf's schema-less reader (UnknownFieldSet) on the bytes
    protobuf-c packed, on prefixes of them, and against the records the message denotes (Impl/Denote.v) where the
    whole-message theorem applies (env_ok, canonical)."""
    import refnorm
    hexes = [refnorm.pack_hex(o) for o in c_out]
    idx = [i for i, h in enumerate(hexes) if h is not None]
    if not idx:
        return
    cuts = []
    for i in idx:
        h = hexes[i]
        n = len(h) // 2
        if n >= 2:
            k = rnd.randrange(1, n)
            cuts.append(h[:2 * k])
    byts = [hexes[i] for i in idx] + cuts
    m_lines = ['SREAD %s' % (h or '-') for h in byts] + ['RECS ' + lines[i].split(' ', 1)[1] for i in idx] + \
              ['WFCANON ' + lines[i].split(' ', 1)[1] for i in idx] + \
              ['SPARSE %s %s' % (lines[i].split()[2], hexes[i] or '-') for i in idx]
    rc, m_out, m_err = run_driver(ctx.model, env.text() + '\n'.join(m_lines) + '\n', 'c03s')
    r_out, r_err = run_ref(ctx, env, ['RAW %s' % (h or '-') for h in byts], 'c03w')
    if len(m_out) != len(m_lines) or len(r_out) != len(byts):
        viol(run, 'disagreement', 'spec-reader tie: a driver did not answer every line (model %d/%d, reference %d/%d)\n%s\n%s'
             % (len(m_out), len(m_lines), len(r_out), len(byts), m_err[-1500:], r_err[-1500:]))
        return
    nb, ni = len(byts), len(idx)
    for j, h in enumerate(byts):
        tally['spec_reader_inputs'] += 1
        if ':3:G' in r_out[j]:
            tally['spec_reader_groups_skipped'] += 1
            continue
        if m_out[j] != r_out[j]:
            viol(run, 'disagreement', "Spec/WireMsg.v's reference reader and libprotobuf's schema-less reader disagree on these bytes (%s)\n--- bytes\n%s\n--- model (SREAD)\n%s\n--- libprotobuf (RAW)\n%s\n"
                 % ('packed by protobuf-c' if j < ni else 'a prefix of what protobuf-c packed', h, m_out[j][:3000], r_out[j][:3000]))
        else:
            tally['spec_reader_agrees_with_libprotobuf'] += 1
            if m_out[j] == 'R -':
                tally['spec_reader_both_reject'] += 1
    for k, i in enumerate(idx):
        w = m_out[nb + ni + k].split()
        in_domain = len(w) == 4 and w[2] == '1' and w[3] == '1'
        if not in_domain:
            tally['outside_whole_message_theorem'] += 1
            continue
        tally['whole_message_theorem_domain'] += 1
        if m_out[nb + k] != m_out[k] or m_out[nb + k] != r_out[k]:
            viol(run, 'disagreement', 'the records a canonical message denotes (Impl/Denote.v) are not what the reference readers find in the bytes protobuf-c packed\n--- schema + case\n%s%s\n--- bytes\n%s\n--- records denoted (RECS)\n%s\n--- model reader (SREAD)\n%s\n--- libprotobuf (RAW)\n%s\n'
                 % (env.text(), lines[i], hexes[i], m_out[nb + k][:3000], m_out[k][:3000], r_out[k][:3000]))
        else:
            tally['records_equal_reader_equal_libprotobuf'] += 1
        # SAME MEANING under the specification-level reading (Impl/SpecParse.v): what protobuf-c packed is read back as the
        # original message (C03_specification_reads_packed_bytes_as_the_original_message, here on the library's bytes)
        sp = m_out[nb + 2 * ni + k]
        if sp == 'U NONE':
            tally['specification_does_not_read_packed_bytes'] += 1       # unknown fields holding a varint that overflows 64 bits
        elif sp != 'U ' + lines[i].split(' ', 1)[1]:
            viol(run, 'disagreement', 'the specification-level reading of the bytes protobuf-c packed is not the original message\n%s\n--- schema + case\n%s%s\n--- bytes\n%s\n--- specification reads\n%s\n'
                 % (first_diff(sp, 'U ' + lines[i].split(' ', 1)[1]), env.text(), lines[i], hexes[i], sp[:3000]))
        else:
            tally['specification_reads_packed_bytes_as_original'] += 1


def check_C03(tier, seed):
    import refnorm
    run = Run('C03', tier, seed)
    ctx = build_phase(need_gen=True)
    gate, obl = gate_and_ties(run, ctx, 'C03', seed, tier)
    rnd = random.Random(seed * 1000003 + 3)
    st = Stats()
    envs = envs_for(rnd, tier, 12, 100)
    per_env = 40 if tier == 'quick' else 120
    tally = {'pack_bytes_identical': 0, 'reference_reads_back_original': 0, 'cases': 0, 'spec_reader_inputs': 0,
             'spec_reader_agrees_with_libprotobuf': 0, 'spec_reader_both_reject': 0, 'spec_reader_groups_skipped': 0,
             'noncanonical_cases': 0, 'noncanonical_pack_bytes_identical': 0, 'specification_reads_packed_bytes_as_original': 0, 'specification_does_not_read_packed_bytes': 0, 'whole_message_theorem_domain': 0, 'outside_whole_message_theorem': 0, 'records_equal_reader_equal_libprotobuf': 0}
    for env in envs:
        st.schemas += 1
        lines, msgs = stream_pack(rnd, env, st, per_env, canon=True)
        c_out, m_out, bad, c_err, text = corr(run, ctx, env, lines, 'c03')
        if bad or len(c_out) != len(lines):
            viol(run, 'disagreement', open(report_disagreement(run, env.text(), lines, c_out, m_out, bad, c_err, 'Impl <-> C correspondence (pack) disagrees')).read())
            if len(c_out) != len(lines):
                continue
        if not ctx.ref:
            continue
        r_out, r_err = run_ref(ctx, env, lines, 'c03r')
        ul = ['UNPACK %s %s' % (l.split()[2], refnorm.pack_hex(o) or '-') for l, o in zip(lines, c_out)]
        u_out, u_err = run_ref(ctx, env, ul, 'c03u')
        if r_out[:1] and r_out[0].startswith('ENVERR'):
            run.notes.append('reference cannot express a generated schema: ' + r_out[0]); continue
        spec_reader_tie(run, ctx, env, lines, c_out, rnd, tally)
        # well-formed messages that are not in the parser's normal form (booleans holding 256 or -1, has flags of 2, default
        # pointers, NULL strings in proto3): the bytes must still be the bytes the reference writes for the same value
        wl, _ = stream_pack(rnd, env, st, max(4, per_env // 4), canon=False)
        wc, wm, wbad, wc_err, _ = corr(run, ctx, env, wl, 'c03w')
        if wbad or len(wc) != len(wl):
            viol(run, 'disagreement', open(report_disagreement(run, env.text(), wl, wc, wm, wbad, wc_err, 'Impl <-> C correspondence (pack, non-canonical) disagrees')).read())
        else:
            wr, wr_err = run_ref(ctx, env, wl, 'c03x')
            for i, l in enumerate(wl):
                ch = refnorm.pack_hex(wc[i]); rh = refnorm.pack_hex(wr[i]) if i < len(wr) else None
                tally['noncanonical_cases'] += 1
                if ch is None or rh is None or ch != rh:
                    viol(run, 'oracle', 'protobuf-c and the reference serialise the same well-formed (non-canonical) message to different bytes\n--- schema + case\n%s%s\n--- protobuf-c\n%s\n--- libprotobuf\n%s\n'
                         % (env.text(), l, wc[i][:3000], wr[i][:3000] if i < len(wr) else '<none>'))
                else:
                    tally['noncanonical_pack_bytes_identical'] += 1
        for i, l in enumerate(lines):
            tally['cases'] += 1
            ch = refnorm.pack_hex(c_out[i])
            rh = refnorm.pack_hex(r_out[i]) if i < len(r_out) else None
            if ch is None or rh is None or ch != rh:
                viol(run, 'oracle', 'protobuf-c and the reference serialise the same message to different bytes\n--- schema + case\n%s%s\n--- protobuf-c\n%s\n--- libprotobuf\n%s\n'
                     % (env.text(), l, c_out[i][:3000], r_out[i][:3000] if i < len(r_out) else '<none>'))
            else:
                tally['pack_bytes_identical'] += 1
            want = refnorm.normalise('U ' + l.split(' ', 1)[1], env)
            got = refnorm.normalise(u_out[i], env) if i < len(u_out) else '<none>'
            if got != want:
                viol(run, 'oracle', 'the reference parses the bytes protobuf-c packed to a different value (or rejects them)\n--- schema + original message\n%s%s\n--- packed by protobuf-c\n%s\n--- parsed by libprotobuf\n%s\n'
                     % (env.text(), l, ul[i], got[:3000]))
            else:
                tally['reference_reads_back_original'] += 1
    run.cov['reference_tie'] = tally
    import gencheck
    run.cov['generator_tie'] = gencheck.generator_part(run, 'C03', tier, seed, n_quick=25, n_thorough=300)
    finish_stats(run, st, 'random schemas x canonical messages: PACK on protobuf-c, on the extracted model and on libprotobuf (deterministic serialisation): '
                          'bytes must be identical; the bytes protobuf-c packed are parsed by libprotobuf and the result (normal form of harness/gen/refnorm.py: '
                          'values bit-exact, presence, order, oneof member, unknown fields) must be the original message')
    return conclude(run, gate, obl)


def valid_variant(rnd, env, m, split=False):
    ok = lambda desc: casegen.splittable(env, desc)
    o = casegen.Opts(rnd, shuffle=rnd.random() < 0.7, pad=rnd.random() < 0.5, repack=rnd.random() < 0.6,
                     split=split, stale=rnd.random() < 0.5, unknown=rnd.random() < 0.4, split_ok=ok)
    return casegen.encode(env, m, o), o


def spec_parse_tie(run, ctx, env, lines, c_out, rnd, tally, pid):
    """The specification-level reading (Impl/SpecParse.v, extracted) against the implementation: whenever the
    specification reads the bytes as a value, protobuf-c must return exactly that value (the statement of
    C04_every_valid_encoding_is_read_as_specified, here on the real library); on the valid re-encodings the
    specification must read SOMETHING unless a required field with a default was left out.  Damaged copies of the
    inputs exercise the rejecting side."""
    for k in ('spec_reads', 'spec_reads_equal_to_protobuf_c', 'spec_not_a_valid_encoding', 'damaged_inputs', 'damaged_spec_reads',
              'valid_reencodings_the_specification_does_not_read'):
        tally.setdefault(k, 0)
    dam = []
    for l in lines[:max(8, len(lines) // 2)]:
        t = l.split()
        h = t[2]
        if h == '-' or len(h) < 4:
            continue
        b = bytearray.fromhex(h)
        r = rnd.random()
        if r < 0.35:
            b = b[:rnd.randrange(1, len(b))]
        elif r < 0.7:
            b[rnd.randrange(len(b))] = rnd.randrange(256)
        else:
            i = rnd.randrange(len(b)); b[i:i] = bytes([rnd.randrange(256)])
        dam.append('UNPACK %s %s' % (t[1], b.hex() or '-'))
    d_c = []
    if dam:
        rc, d_c, _ = run_driver(ctx.impl, env.text() + '\n'.join(dam) + '\n', pid.lower() + 'd')
        if len(d_c) != len(dam):
            dam, d_c = [], []
    allc = list(lines) + dam
    want = list(c_out) + d_c
    sp = ['SPARSE ' + l.split(' ', 1)[1] for l in allc]
    rc, s_out, s_err = run_driver(ctx.model, env.text() + '\n'.join(sp) + '\n', pid.lower() + 's')
    if len(s_out) != len(sp):
        viol(run, 'disagreement', 'specification tie: the model driver did not answer every SPARSE line (%d/%d)\n%s' % (len(s_out), len(sp), s_err[-2000:]))
        return
    for i, l in enumerate(allc):
        damaged = i >= len(lines)
        if damaged:
            tally['damaged_inputs'] += 1
        if s_out[i] == 'U NONE':
            tally['spec_not_a_valid_encoding'] += 1
            if not damaged:
                # outside the theorem (the specification is stricter than the format in places: packed bool elements
                # sent as padded varints, see C04_laxer_specification_is_not_refined); decided by the reference tie only
                tally['valid_reencodings_the_specification_does_not_read'] += 1
            continue
        tally['spec_reads'] += 1
        if damaged:
            tally['damaged_spec_reads'] += 1
        if s_out[i] != want[i]:
            viol(run, 'disagreement', 'the specification (Impl/SpecParse.v) reads these bytes as a value and protobuf-c returns something else\n%s\n--- schema + case\n%s%s\n--- specification\n%s\n--- protobuf-c\n%s\n'
                 % (first_diff(s_out[i], want[i]), env.text(), l, s_out[i][:3000], want[i][:3000]))
        else:
            tally['spec_reads_equal_to_protobuf_c'] += 1


def check_C04(tier, seed, pid='C04'):
    import refnorm
    run = Run(pid, tier, seed)
    ctx = build_phase(need_gen=True)
    gate, obl = gate_and_ties(run, ctx, pid, seed, tier)
    rnd = random.Random(seed * 1000003 + (4 if pid == 'C04' else 10))
    st = Stats()
    envs = envs_for(rnd, tier, 14, 120, oneof_defaults=True)
    per_env = 40 if tier == 'quick' else 120
    tally = {'cases': 0, 'c_equals_reference': 0, 'equals_original': 0}
    split = pid == 'C10'
    ncorner = len(casegen.corner_envs())
    for ei, env in enumerate(envs):
        st.schemas += 1
        lines, origs, hasunk = [], [], []
        for _ in range(per_env * (6 if ei < ncorner else 1)):      # the hand-made schemas carry the rare shapes
            d = rnd.randrange(len(env.msgs))
            m = casegen.gen_msg(rnd, env, d, canon=True)
            sp = split or rnd.random() < 0.3      # an embedded message sent in several occurrences is a valid encoding too
            bs, o = valid_variant(rnd, env, m, split=sp)
            l = 'UNPACK %d %s' % (d, casegen.hexs(bs))
            lines.append(l); origs.append('U ' + casegen.msg_text(m)); hasunk.append(o.unknown)
            st.add('UNPACK:' + ('split+stale' if sp else 'reencoded'), l)
        # a singular embedded message in two occurrences built around merge_messages' per-member decisions
        for d, bs, kind in casegen.merge_corner_inputs(rnd, env, 9 if tier == 'quick' else 24):
            l = 'UNPACK %d %s' % (d, casegen.hexs(bs))
            lines.append(l); origs.append(''); hasunk.append(True)
            st.add('UNPACK:two-occurrences-' + kind, l)
        c_out, m_out, bad, c_err, text = corr(run, ctx, env, lines, pid.lower())
        if bad or len(c_out) != len(lines):
            viol(run, 'disagreement', open(report_disagreement(run, env.text(), lines, c_out, m_out, bad, c_err, 'Impl <-> C correspondence (unpack) disagrees')).read())
            if len(c_out) != len(lines):
                continue
        spec_parse_tie(run, ctx, env, lines, c_out, rnd, tally, pid)
        r_out = []
        if ctx.ref:
            r_out, r_err = run_ref(ctx, env, lines, pid.lower() + 'r')
            if r_out[:1] and r_out[0].startswith('ENVERR'):
                run.notes.append('reference cannot express a generated schema: ' + r_out[0]); r_out = []
        for i, l in enumerate(lines):
            tally['cases'] += 1
            cn = refnorm.normalise(c_out[i], env)
            if c_out[i] == 'U FAIL':
                viol(run, 'oracle', 'a valid encoding was rejected\n--- schema + case\n%s%s\n--- value encoded\n%s\n' % (env.text(), l, origs[i][:3000]))
                continue
            if r_out:
                rn = refnorm.normalise(r_out[i], env) if i < len(r_out) else '<none>'
                if cn != rn:
                    viol(run, 'oracle', 'protobuf-c and the reference read the same valid encoding differently\n%s\n--- schema + case\n%s%s\n--- protobuf-c\n%s\n--- libprotobuf\n%s\n'
                         % (first_diff(cn, rn), env.text(), l, cn[:3000], rn[:3000]))
                else:
                    tally['c_equals_reference'] += 1
            if not hasunk[i]:
                if cn != refnorm.normalise(origs[i], env):
                    viol(run, 'oracle', 'a re-encoding of a value was not read back as that value\n%s\n--- schema + case\n%s%s\n--- protobuf-c\n%s\n--- value encoded\n%s\n'
                         % (first_diff(cn, refnorm.normalise(origs[i], env)), env.text(), l, cn[:3000], origs[i][:3000]))
                else:
                    tally['equals_original'] += 1
    run.cov['reference_tie'] = tally
    if pid == 'C10':
        # the two listed findings: replayed; reported as KNOWN-FINDING while they still differ from the reference
        for f in common.load_findings().get('findings', []):
            if f.get('property') != 'C10' or not ctx.ref:
                continue
            p = os.path.join(ROOT, 'harness', 'cxx', 'ref_findings', f['reproducer'])
            txt = open(p).read()
            rc1, co, _ = run_driver(ctx.impl, txt, 'c10f')
            rc2, ro, _ = run_driver(ctx.ref, txt, 'c10fr', pre_args=['--lax-utf8'])
            env_t = refnorm.parse_env(txt)
            if [refnorm.normalise(x, env_t) for x in co] != [refnorm.normalise(x, env_t) for x in ro]:
                if co[:1] == [f['c_first_line']]:
                    run.known.append('%s: %s' % (f['reproducer'], f['what']))
                else:
                    viol(run, 'finding', 'the reproducer of a listed finding behaves differently now\n%s\nprotobuf-c: %s\nreference: %s\n' % (f['reproducer'], co, ro))
    if pid == 'C04':
        slab_limit_finding(run)
    finish_stats(run, st, ('random schemas x canonical messages re-encoded by the Python reference encoder: fields shuffled, varints / keys / lengths padded, '
                           'repeated scalars packed / unpacked / mixed, stale earlier values for singular scalars, unknown fields interleaved'
                           + (', embedded messages (without required fields) split over 2-3 occurrences' if split else '') +
                           '; UNPACK on protobuf-c, the extracted model and libprotobuf; results compared in the normal form of refnorm.py, and with the encoded value'))
    return conclude(run, gate, obl)


def slab_limit_finding(run):
    """replays the listed C04 finding on the real library (one 268 MB input, about 4.5 GB of slabs, 10 s); reported as
    KNOWN-FINDING while protobuf-c still rejects that valid encoding, silently gone when it accepts it"""
    for f in common.load_findings().get('findings', []):
        if f.get('property') != 'C04' or not f.get('reproducer', '').endswith('slab_limit.c'):
            continue
        src = os.path.join(ROOT, f['reproducer'])
        repo = common.REPO
        h = hashlib.sha256(open(src, 'rb').read() + open(os.path.join(repo, 'protobuf-c', 'protobuf-c.c'), 'rb').read()
                           + open(os.path.join(repo, 'protobuf-c', 'protobuf-c.h'), 'rb').read()).hexdigest()[:16]
        exe = os.path.join(BUILD, 'c', 'slab_limit-' + h)
        if not os.path.exists(exe):
            rc, out, err = common.sh(['gcc', '-O2', '-I', repo, '-o', exe, src, os.path.join(repo, 'protobuf-c', 'protobuf-c.c')], timeout=300)
            if rc != 0:
                viol(run, 'finding', 'the reproducer of a listed finding does not build\n%s\n%s\n' % (f['reproducer'], (out + err)[-2000:]))
                continue
        rc, out, err = common.sh([exe] + f.get('args', []), timeout=600)
        first = out.strip().splitlines()[0] if out.strip() else ''
        run.cov['slab_limit_replay'] = {'exit': rc, 'output': first}
        if rc == 0 and first.startswith('message'):
            continue                                     # accepted now: the finding is gone
        if (rc == 0 and first == f.get('expect', 'NULL')) or rc == 2:
            run.known.append('%s: %s' % (os.path.basename(f['reproducer']), f['what']))
        else:
            viol(run, 'finding', 'the reproducer of a listed finding behaves differently now\n%s\nexit %d\n%s\n%s\n' % (f['reproducer'], rc, out[-500:], err[-500:]))


def check_C10(tier, seed):
    return check_C04(tier, seed, pid='C10')


def check_C09(tier, seed):
    import refnorm
    run = Run('C09', tier, seed)
    ctx = build_phase(need_gen=True)
    gate, obl = gate_and_ties(run, ctx, 'C09', seed, tier)
    rnd = random.Random(seed * 1000003 + 9)
    st = Stats()
    envs = envs_for(rnd, tier, 14, 120)
    per_env = 30 if tier == 'quick' else 100
    tally = {'cases': 0, 'survived_old_program': 0, 'reference_agrees': 0}
    for env in envs:
        st.schemas += 1
        old = casegen.older_schema(rnd, env, keep=rnd.choice([0.0, 0.3, 0.6, 0.9]))
        lines, origs = [], []
        for _ in range(per_env):
            d = rnd.randrange(len(env.msgs))
            m = casegen.gen_msg(rnd, env, d, canon=True)
            o = casegen.Opts(rnd, shuffle=rnd.random() < 0.5, pad=False, repack=False, unknown=rnd.random() < 0.3)
            bs = casegen.encode(env, m, o)
            lines.append('RT %d %s' % (d, casegen.hexs(bs))); origs.append(m)
            st.add('RT:old-schema', lines[-1])
        # the old program: unpack + pack under the old schema
        c_out, m_out, bad, c_err, text = corr(run, ctx, old, lines, 'c09o')
        if bad or len(c_out) != len(lines):
            viol(run, 'disagreement', open(report_disagreement(run, old.text(), lines, c_out, m_out, bad, c_err, 'Impl <-> C correspondence (unpack+pack under the older schema) disagrees')).read())
            if len(c_out) != len(lines):
                continue
        # the new program reads what the old one wrote, and what the producer wrote: same value
        back, direct = [], []
        for l, o in zip(lines, c_out):
            t = o.split()
            d = l.split()[1]
            back.append('UNPACK %s %s' % (d, t[3] if len(t) > 3 and t[0] == 'RT' and t[1] != 'FAIL' else 'ff'))
            direct.append('UNPACK %s %s' % (d, l.split()[2]))
        b_out, bm_out, bad2, b_err, _ = corr(run, ctx, env, back + direct, 'c09n')
        if bad2 or len(b_out) != 2 * len(lines):
            viol(run, 'disagreement', open(report_disagreement(run, env.text(), back + direct, b_out, bm_out, bad2, b_err, 'Impl <-> C correspondence (unpack under the newer schema) disagrees')).read())
            if len(b_out) != 2 * len(lines):
                continue
        r_out = []
        if ctx.ref:
            r_out, _ = run_ref(ctx, env, back, 'c09r')
            if r_out[:1] and r_out[0].startswith('ENVERR'):
                r_out = []
        n = len(lines)
        for i in range(n):
            tally['cases'] += 1
            a = refnorm.normalise(b_out[i], env); b = refnorm.normalise(b_out[n + i], env)
            if c_out[i].startswith('RT FAIL') or a != b:
                viol(run, 'oracle', 'data written under the newer schema does not read back unchanged after unpack+pack by a program built against the older schema\n'
                                    '--- newer schema\n%s--- older schema\n%s--- case (bytes from the producer)\n%s\n--- old program output\n%s\n--- new program reads the producer bytes as\n%s\n--- and the old program output as\n%s\n'
                     % (env.text(), old.text(), lines[i], c_out[i][:2000], b[:2000], a[:2000]))
            else:
                tally['survived_old_program'] += 1
            if r_out and i < len(r_out):
                if refnorm.normalise(r_out[i], env) == a:
                    tally['reference_agrees'] += 1
                else:
                    viol(run, 'oracle', 'the reference reads the bytes re-serialised by the old program differently from protobuf-c\n--- newer schema\n%s--- case\n%s\n--- protobuf-c\n%s\n--- libprotobuf\n%s\n'
                         % (env.text(), back[i], a[:2000], refnorm.normalise(r_out[i], env)[:2000]))
    run.cov['two_schema_oracle'] = tally
    finish_stats(run, st, 'pairs (newer schema, older schema = newer with a random subset of the fields outside oneofs removed, keep ratio 0/0.3/0.6/0.9) x '
                          'canonical messages of the newer schema encoded by the Python reference encoder (optionally shuffled, extra unknown fields): RT (unpack + pack) under the '
                          'older schema on protobuf-c and the model, then UNPACK under the newer schema of the result and of the producer bytes: same value; libprotobuf reads the result the same way')
    return conclude(run, gate, obl)


def check_C06(tier, seed):
    run = Run('C06', tier, seed)
    ctx = build_phase()
    gate, obl = gate_and_ties(run, ctx, 'C06', seed, tier)
    rnd = random.Random(seed * 1000003 + 6)
    st = Stats()
    envs = envs_for(rnd, tier, 14, 120, oneof_defaults=True)     # with the hand-made schemas (packed / unpacked repeated fields of every scalar type, ...)
    per_env = 60 if tier == 'quick' else 160
    tally = {'inputs': 0, 'accepted': 0, 'stable': 0}
    nf = {'accepted_by_model': 0, 'normal_form_after_normalisation': 0, 'already_normal_form': 0}

    def oracle(env, lines, c_out):
        out = []
        for i, (l, o) in enumerate(zip(lines, c_out)):
            tally['inputs'] += 1
            t = o.split()
            if len(t) < 2 or t[0] != 'RT':
                out.append((i, 'unexpected driver output')); continue
            if t[1] == 'FAIL':
                continue
            tally['accepted'] += 1
            if len(t) < 6:
                out.append((i, 'unexpected driver output')); continue
            chk, size, pk, chunks, r2 = t[1], int(t[2]), t[3], t[4], t[5]
            pk = '' if pk == '-' else pk
            chunks = '' if chunks == '-' else chunks
            if chk != '1':
                out.append((i, 'the parser accepted the input but protobuf_c_message_check rejects the result'))
            elif size != len(pk) // 2:
                out.append((i, 'get_packed_size and pack disagree on a parsed message'))
            elif chunks != pk:
                out.append((i, 'pack_to_buffer and pack disagree on a parsed message'))
            elif r2 == 'FAIL2':
                out.append((i, 'the parser refuses what the serialiser wrote for a message it had accepted'))
            elif ('' if r2 == '-' else r2) != pk:
                out.append((i, 'serialising the re-parsed message does not reproduce the first serialisation'))
            else:
                tally['stable'] += 1
        return out
    def rt_and_nf(r, e, s, n):
        lines = stream_unpack(r, e, s, n, op='RT')
        # hypothesis of the stability theorem (C06_stable_when_normal_form), evaluated by the extracted predicates
        ul = ['UNORM ' + l.split(' ', 1)[1] for l in lines]
        rc, out, err = run_driver(ctx.model, e.text() + '\n'.join(ul) + '\n', 'c06n')
        for o in out:
            t = o.split()
            if len(t) >= 3:
                nf['accepted_by_model'] += 1
                nf['normal_form_after_normalisation'] += int(t[1]); nf['already_normal_form'] += int(t[2])
                if len(t) >= 6:
                    nf['well_formed'] = nf.get('well_formed', 0) + int(t[3])
                    nf['well_typed'] = nf.get('well_typed', 0) + int(t[4])
                    nf['check_accepts'] = nf.get('check_accepts', 0) + int(t[5])
                if len(t) >= 7:
                    nf['unknown_numbers_below_2^29'] = nf.get('unknown_numbers_below_2^29', 0) + int(t[6])
                    # C06_parser_result_is_well_formed_checked_and_typed, evaluated: a contradiction means extraction or the model is off
                    if (t[3], t[5]) != ('1', '1') or (t[6] == '1' and t[4] != '1'):
                        nf['contradicts_theorem'] = nf.get('contradicts_theorem', 0) + 1
        return lines
    run_corr_streams(run, ctx, rnd, envs, per_env, st, [rt_and_nf], 'rt', oracle)
    if nf.get('contradicts_theorem'):
        rp = run.replay('theorem.txt', 'the extracted predicates contradict theorem unpack_result_good on %d accepted inputs (inputs shorter than 2^28)\n' % nf['contradicts_theorem'])
        run.violation(rp, True)
    run.cov['theorem_hypothesis'] = dict(nf, note='C06_accepted_input_is_reserialisable_and_stable applies to every accepted input whose retained unknown field numbers are below 2^29 (counted here with the extracted predicate); the others (5-byte keys with larger numbers) rest on the oracle alone')
    run.cov['stability'] = tally
    finish_stats(run, st, 'random schemas x inputs of every kind (special inputs: empty, padded keys, zero-field keys, over-long varints, wire-type mismatches for bool; '
                          'canonical; re-encoded; corrupted; random bytes): RT = unpack, then message_check, get_packed_size, pack, pack_to_buffer, unpack of the result, pack again; '
                          'on protobuf-c (ASan/UBSan) and the extracted model; oracle on protobuf-c: accepted => check passes, the three serialisers agree, the output re-parses and re-serialises identically')
    return conclude(run, gate, obl)


def check_C05(tier, seed):
    run = Run('C05', tier, seed)
    ctx = build_phase()
    gate, obl = gate_and_ties(run, ctx, 'C05', seed, tier)
    rnd = random.Random(seed * 1000003 + 5)
    st = Stats()
    envs = envs_for(rnd, tier, 16, 150, big_every=4, oneof_defaults=True)
    per_env = 80 if tier == 'quick' else 250
    t0 = time.time()
    bad_envs = run_corr_streams(run, ctx, rnd, envs, per_env, st, [lambda r, e, s, n: stream_unpack(r, e, s, n)], 'unpack')
    run.cov['sanitizers'] = 'impl_driver built with -fsanitize=address,undefined -fno-sanitize-recover=all; every input is copied into an exact-size heap block before unpack; a sanitizer report aborts the driver, which shows as a missing output line (= disagreement)'
    run.cov['watchdog'] = 'driver timeout 600 s per schema batch (%d inputs); observed total %.1f s' % (st.n, time.time() - t0)
    finish_stats(run, st, 'random schemas (all field kinds, oneofs with and without defaults, generic and generated initialisers, up to 200 fields) x '
                          'special inputs (empty, truncated, padded, zero keys, huge lengths), canonical, re-encoded, corrupted (bit flips, truncation, length tampering) and random byte strings: '
                          'UNPACK on protobuf-c under ASan/UBSan and on the extracted model; any sanitizer report, crash or hang of the C driver is a violation')
    return conclude(run, gate, obl)


def alloc_check(pid, tier, seed):
    """C07 (plan '-': everything returned, nothing foreign freed) and C08 (every single refusal point, k+, subsets)"""
    run = Run(pid, tier, seed)
    ctx = build_phase()
    gate, obl = gate_and_ties(run, ctx, pid, seed, tier, need_leaf=False)
    rnd = random.Random(seed * 1000003 + (7 if pid == 'C07' else 8))
    st = Stats()
    envs = envs_for(rnd, tier, 10, 40, oneof_defaults=True)
    # always one schema whose first message has more than 128 fields (heap-allocated required-fields bitmap) ...
    envs.append(casegen.gen_env(rnd, nmsgs=2, big=True, wide=True))
    per_env = 14 if tier == 'quick' else 24
    tally = {'traces': 0, 'accepted_by_monitor': 0, 'events': 0, 'refusal_points': 0}
    for env in envs:
        st.schemas += 1
        inputs = []
        for _ in range(per_env):
            d = rnd.randrange(len(env.msgs))
            m = casegen.gen_msg(rnd, env, d, canon=True)
            r = rnd.random()
            if r < 0.5:
                bs, _o = valid_variant(rnd, env, m, split=True)
            elif r < 0.7:
                base_bs = valid_variant(rnd, env, m, split=True)[0] if rnd.random() < 0.6 else casegen.encode(env, m, casegen.CANON)
                bs = casegen.corrupt(rnd, base_bs)
            elif r < 0.85:
                # a later occurrence of a singular message field is rejected after the earlier one was stored
                bs = casegen.encode(env, m, casegen.Opts(rnd, shuffle=rnd.random() < 0.3, bad_later=True))
            else:
                bs = casegen.encode(env, m, casegen.CANON)
            inputs.append((d, casegen.hexs(bs)))
        # a required field (without default) left out, the highest-numbered ones first: the arrays of the repeated fields before it
        # have been allocated when the parser notices
        reqs = [(md.idx, f.id) for md in env.msgs for f in md.fields if f.label == 'REQ' and f.default is None]
        reqs.sort(key=lambda q: -[f.id for f in env.msgs[q[0]].fields].index(q[1]))
        for drop in reqs[:6 if tier == 'quick' else 20]:
            for d in [drop[0]] + [rnd.randrange(len(env.msgs))]:
                m = casegen.gen_msg(rnd, env, d, canon=True)
                if casegen.contains_type(env, m, drop[0]):
                    inputs.append((d, casegen.hexs(casegen.encode(env, m, casegen.Opts(rnd, drop=drop, shuffle=rnd.random() < 0.3)))))
        # systematically: a selected oneof member released, then the replacing member rejected (every ordered pair of members)
        for d, bs in casegen.oneof_replacement_failures(rnd, env, 12 if tier == 'quick' else 40):
            inputs.append((d, casegen.hexs(bs)))
        # a singular embedded message in two occurrences: carry-over, explicit empty values, replacement (merge_messages' moves and frees)
        for d, bs, _kind in casegen.merge_corner_inputs(rnd, env, (9 if pid == 'C07' else 4) if tier == 'quick' else 24):
            inputs.append((d, casegen.hexs(bs)))
        base = ['UNPACKT %d %s -' % (d, h) for d, h in inputs]
        rc, b_out, b_err = run_driver(ctx.impl, env.text() + '\n'.join(base) + '\n', pid.lower() + 'b')
        if len(b_out) != len(base):
            viol(run, 'crash', 'the driver died while unpacking with a recording allocator\n--- schema\n%s--- stderr\n%s\n' % (env.text(), b_err[-3000:]))
            continue
        lines = list(base)
        if pid == 'C07':
            # memory also returns to the allocator when the call fails early: the first requests refused, on a few inputs
            for (d, h) in inputs[:6]:
                for k in (0, 1, 2):
                    lines.append('UNPACKT %d %s %d' % (d, h, k))
        if pid == 'C08':
            lines = []
            for (d, h), o in zip(inputs, b_out):
                nreq = sum(1 for t in o.split()[1:] if t[0] in 'ar')
                cap_k = 24 if tier == 'quick' else 96
                ks = list(range(nreq)) if nreq <= cap_k else sorted(rnd.sample(range(nreq), cap_k))
                for k in ks:
                    lines.append('UNPACKT %d %s %d' % (d, h, k)); tally['refusal_points'] += 1
                if nreq:
                    lines.append('UNPACKT %d %s %d+' % (d, h, rnd.randrange(nreq)))
                    lines.append('UNPACKT %d %s %s' % (d, h, ','.join(map(str, sorted(set(rnd.randrange(nreq) for _ in range(3)))))))
        for l in lines:
            st.add('UNPACKT', l)
        rc, c_out, c_err = run_driver(ctx.impl, env.text() + '\n'.join(lines) + '\n', pid.lower())
        if len(c_out) != len(lines):
            viol(run, 'crash', 'the driver died (crash / sanitizer report) while unpacking with refused allocations\n--- schema + last case\n%s%s\n--- stderr\n%s\n'
                 % (env.text(), lines[len(c_out)] if len(c_out) < len(lines) else '?', c_err[-3000:]))
            continue
        led = ['LEDGER' + o[1:] for o in c_out]
        rc, l_out, l_err = run_driver(ctx.model, env.text() + '\n'.join(led) + '\n', pid.lower() + 'l')
        # the allocation-level model (Impl/Heap.v) must produce the very same event sequence, request by request
        rc, s_out, s_err = run_driver(ctx.impl, env.text() + 'SIZES\n', pid.lower() + 's')
        sizes = ','.join(s_out[0].split()[1:]) if s_out and s_out[0].startswith('S') else ''
        hl = ['HTRACE %s %s' % (sizes, l.split(' ', 1)[1]) for l in lines]
        rc, h_out, h_err = run_driver(ctx.model, env.text() + '\n'.join(hl) + '\n', pid.lower() + 'h')
        if HUNG:
            break           # a driver did not terminate: reported as such by conclude(), partial output is not compared
        # the two models must take the same accept / reject decision when nothing is refused (proved: Proofs/HeapSim.v when present)
        free_runs = [(i, l) for i, l in enumerate(lines) if l.split()[-1] == '-']
        if free_runs:
            ul = ['UNPACK %s %s' % (l.split()[1], l.split()[2]) for _i, l in free_runs]
            rc, v_out, v_err = run_driver(ctx.model, env.text() + '\n'.join(ul) + '\n', pid.lower() + 'v')
            for (i, l), v in zip(free_runs, v_out):
                hv = h_out[i] if i < len(h_out) else ''
                tally['model_decisions_compared'] = tally.get('model_decisions_compared', 0) + 1
                if (' U1' in hv) != (v != 'U FAIL'):
                    viol(run, 'disagreement', 'the value-level and the allocation-level model disagree on accepting this input\n--- schema + case\n%s%s\n--- value model\n%s\n--- allocation model\n%s\n'
                         % (env.text(), l, v[:500], hv[:500]))
        for i, (l, o) in enumerate(zip(lines, c_out)):
            h = h_out[i] if i < len(h_out) else '<model driver aborted: %s>' % h_err[-300:]
            tally['heap_model_traces'] = tally.get('heap_model_traces', 0) + 1
            if h == o:
                tally['heap_model_agrees'] = tally.get('heap_model_agrees', 0) + 1
            else:
                viol(run, 'disagreement', 'allocation-level model (Impl/Heap.v) and protobuf-c disagree on the sequence of allocator events\n%s\n'
                                          '--- schema + case (UNPACKT on build/c/impl_driver-*, HTRACE %s ... on build/ocaml/model_driver)\n%s%s\n--- protobuf-c\n%s\n--- model\n%s\n'
                     % (first_diff(o, h), sizes, env.text(), l, o[:4000], h[:4000]))
        for i, (l, o) in enumerate(zip(lines, c_out)):
            tally['traces'] += 1; tally['events'] += len(o.split()) - 1
            toks = o.split()
            if any(t.endswith(':1024') or t.endswith(':2048') or t.endswith(':4096') for t in toks if t[0] in 'ar'):
                tally['traces_with_heap_slabs'] = tally.get('traces_with_heap_slabs', 0) + 1
            if len(env.msgs[int(l.split()[1])].fields) > 128:
                tally['traces_with_heap_bitmap'] = tally.get('traces_with_heap_bitmap', 0) + 1
            if ' U0' in o:
                tally['rejected'] = tally.get('rejected', 0) + 1
            v = l_out[i] if i < len(l_out) else '?'
            if v == 'L 1':
                tally['accepted_by_monitor'] += 1
            else:
                viol(run, 'oracle', 'the allocation discipline is violated on this run (verified monitor Impl/Ledger.v rejects the trace: %s)\n'
                                    'events: a<i>:<size> granted, r<i>:<size> refused, f<i> freed, x bad free, U1/U0 unpack returned message/NULL, F free_unpacked returned\n'
                                    '--- schema + case\n%s%s\n--- trace\n%s\n' % (v, env.text(), l, o[:4000]))
    if pid == 'C08':
        benv = casegen.Env([casegen.MsgDesc(0, [], 0, 1)])
        blines = ['BUF 4 0 3 3 10', 'BUF 8 1+ 8 1 20 100', 'BUF 3 0,2 2 2 2 2 2 2 2', 'BUF 2 1 3 6 0 1 7', 'BUF 1 2 1 1 2 4 8 16']
        for _ in range(150 if tier == 'quick' else 2000):
            blines.append(casegen.gen_buf_case(rnd))
        c_out, m_out, bad, c_err, _t = corr(run, ctx, benv, blines, 'c08buf')
        if bad or len(c_out) != len(blines):
            viol(run, 'disagreement', open(report_disagreement(run, benv.text(), blines, c_out, m_out, bad, c_err,
                                                                'buffer model <-> protobuf_c_buffer_simple_append disagree (refused growth must keep contents, length, capacity, ownership)')).read())
        tally['buffer_histories'] = len(blines)
    run.cov['ledger'] = tally
    finish_stats(run, st, 'random schemas x inputs (valid re-encodings incl. split sub-messages = merge paths, corrupted, canonical): protobuf_c_message_unpack with a recording allocator, '
                          + ('failure-free' if pid == 'C07' else 'with the k-th request refused for EVERY k below the request count of the failure-free run (at most 24 / 96 refusal points per input in the quick / thorough tier), plus k+ and random subsets')
                          + ', then free_unpacked; the allocator event trace of the real run is judged by the extracted, proved-sound monitor')
    return conclude(run, gate, obl)


CHECKS = {'C07': lambda t, s_: alloc_check('C07', t, s_), 'C08': lambda t, s_: alloc_check('C08', t, s_), 'C05': check_C05, 'C06': check_C06, 'C03': check_C03, 'C04': check_C04, 'C09': check_C09, 'C10': check_C10, 'C11': check_C11, 'C12': gen_check('C12', GEN_RULE), 'C13': gen_check('C13', GEN_RULE), 'C15': gen_check('C15', GEN_RULE), 'C20': gen_check('C20', GEN_RULE), 'C19': check_C19, 'C01': check_C01, 'C18': check_C18, 'C02': check_C02, 'C14': check_C14, 'C16': check_C16, 'C17': check_C17}


def main():
    if len(sys.argv) >= 2 and sys.argv[1] == '--setup':
        ctx = build_phase()
        for name, msg in ctx.errors:
            print('setup: %s failed:\n%s' % (name, msg[-2000:]))
        print('setup: coq build %s (failed targets: %s); %.0fs' % ('ok' if ctx.coq_ok else 'INCOMPLETE', ctx.coq_failed, ctx.build_s))
        # compile every property file once so that a later check only re-checks what changed
        for p in sorted(glob.glob(os.path.join(COQ, 'Props', 'Properties_*.v'))):
            pid = os.path.basename(p)[len('Properties_'):-2]
            g = common.proof_gate(pid)
            print('setup: %s proof gate %s' % (pid, 'ok' if g['ok'] else 'NOT OK'))
        return 0 if not ctx.errors else 1
    pid = sys.argv[1]
    tier = sys.argv[2] if len(sys.argv) > 2 else os.environ.get('VERIF_TIER', 'quick')
    seed = int(os.environ.get('VERIF_SEED', '1'))
    if pid not in CHECKS:
        print('unknown property ' + pid)
        return 2
    return CHECKS[pid](tier, seed)


if __name__ == '__main__':
    sys.exit(main())

(* C09 stated against the reference reader: for every input the specification-level parser reads, the unknown fields
   the parser retains are exactly the records of the reference reader (Spec/WireRaw.v) whose number the schema does
   not know, in wire order, each with its number, wire type and exact bytes -- nothing else of the message decides it. *)
From Coq Require Import ZArith List Bool Lia.
From PBC Require Import Impl.Desc Impl.Mem Impl.Unpack Impl.Canon Spec.WireMsg Spec.WireRaw Impl.SpecParse.
From PBC Require Proofs.LeafSafe Proofs.SpecRefine5 Proofs.Examples.
Import ListNotations.
Local Open Scope Z_scope.

Definition unknown_of (r : rawrec) : ufield :=
  {| u_tag := rr_num r; u_wt := wt_of (rr_pay r); u_data := rr_raw r |}.

(* the records the schema has no field for *)
Definition unknown_records (md : mdesc) (rs : list rawrec) : list ufield :=
  flat_map (fun r => match field_index md (rr_num r) with None => [unknown_of r] | Some _ => [] end) rs.

Ltac split_matches H :=
  repeat match type of H with
  | context [match ?x with _ => _ end] => destruct x eqn:?; try discriminate H
  | context [obind ?x _] => destruct x eqn:?; cbn [obind] in H; try discriminate H
  end.

Section Unk.
Variable E : env.
Variable sub : nat -> list Z -> option msg.
Variable md : mdesc.

Lemma spec_record_unknowns : forall r m m', spec_record E sub md r m = Some m' ->
  m_unk m' = m_unk m ++ match field_index md (rr_num r) with None => [unknown_of r] | Some _ => [] end.
Proof.
  intros r [d slots unions unk] m' H. unfold spec_record in H.
  destruct (field_index md (rr_num r)) as [i|] eqn:Ei.
  - split_matches H; injection H as <-; cbn [m_unk]; rewrite app_nil_r; reflexivity.
  - injection H as <-. reflexivity.
Qed.

Lemma spec_records_unknowns : forall rs m m', spec_records E sub md rs m = Some m' ->
  m_unk m' = m_unk m ++ unknown_records md rs.
Proof.
  induction rs as [|r rs IH]; intros m m' H; cbn [spec_records] in H.
  - injection H as <-. cbn [unknown_records flat_map]. rewrite app_nil_r. reflexivity.
  - destruct (spec_record E sub md r m) as [m1|] eqn:E1; cbn [obind] in H; [|discriminate H].
    rewrite (IH _ _ H), (spec_record_unknowns _ _ _ E1). unfold unknown_records. cbn [flat_map].
    rewrite <- app_assoc. reflexivity.
Qed.

End Unk.

(* what the specification reads *)
Theorem spec_unknowns_are_the_unknown_records : forall E d b m,
  spec_parse_top E d b = Some m ->
  exists md rs, nth_error E d = Some md /\ read_raw 5 b = Some rs /\ m_unk m = unknown_records md rs.
Proof.
  intros E d b m H. unfold spec_parse_top in H. cbn [spec_parse] in H.
  destruct (nth_error E d) as [md|] eqn:Emd; [|discriminate H].
  destruct (read_raw 5 b) as [rs|] eqn:Er; [|discriminate H].
  destruct (required_present md rs); [|discriminate H].
  exists md, rs. split; [reflexivity|]. split; [reflexivity|].
  rewrite (spec_records_unknowns _ _ _ _ _ _ H). unfold init_msg. reflexivity.
Qed.

(* ... is what the implementation model retains *)
Theorem unpack_retains_exactly_the_unknown_records : forall (E : env) d b m,
  env_ok E = true -> LeafSafe.bytes b -> Mem.zlen b <= 268435425 ->
  spec_parse_top E d b = Some m ->
  unpack_top E d b = Ok m /\
  exists md rs, nth_error E d = Some md /\ read_raw 5 b = Some rs /\ m_unk m = unknown_records md rs.
Proof.
  intros E d b m EO HB Hlen H. split.
  - exact (SpecRefine5.spec_parse_refined E d b m EO HB Hlen H).
  - exact (spec_unknowns_are_the_unknown_records E d b m H).
Qed.

Print Assumptions unpack_retains_exactly_the_unknown_records.

(* non-vacuity: the non-canonical example input of SpecRefine5 ends with field 1000 (unknown to the example schema) *)
Example unknown_records_example :
  exists m, spec_parse_top Examples.ex_env 0 SpecRefine5.ex_bytes = Some m /\
            m_unk m = [{| u_tag := 1000; u_wt := 0; u_data := [1] |}].
Proof. eexists. split; vm_compute; reflexivity. Qed.

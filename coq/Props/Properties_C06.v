(* C06 -- whatever the parser accepts is well-formed, re-serialisable and stable.
   Proved: the stable core -- for every message in the parser's normal form, serialising, parsing and serialising
   again reproduces the bytes exactly, the three serialisers agree, and the validity check accepts only what
   they can serialise (C01, C02, C19).  NOT proved: that every message the parser returns, on arbitrary
   accepted input, is in that normal form (an invariant of the whole parse: counts scanned = elements parsed,
   strings on the heap, has flags 0/1 ...).  That step is decided on the implementation by the check: every
   accepted input goes through unpack -> check -> size/pack/pack_to_buffer -> unpack -> pack, on protobuf-c
   and on the model.  Hence the names ending in _partial. *)
From Coq Require Import ZArith List Bool.
From PBC Require Import Impl.Desc Impl.Mem Impl.Size Impl.Pack Impl.PackBuf Impl.Unpack Impl.Check Impl.WF Impl.Canon Impl.Norm
     Proofs.MsgRT4 Proofs.SizePackFinal Proofs.CheckSafe Proofs.NormPack.
Import ListNotations.
Local Open Scope Z_scope.

(* second serialisation = first serialisation, for the parser's normal form *)
Theorem C06_stable_partial : forall (E : env) (m : msg) (b : list Z),
  env_ok E = true -> canon_msg E m = true ->
  pack_msg E m = Ok b -> Z.of_nat (length b) <= 2147483647 ->
  exists m2, unpack_top E (m_desc m) b = Ok m2 /\ pack_msg E m2 = Ok b.
Proof.
  intros E m b EO C Hp Hl. exists m. split; [|exact Hp]. unfold unpack_top.
  exact (proj1 (roundtrip_canonical E EO m C (S (length b)) b Hp Hl (Nat.lt_succ_diag_r _))).
Qed.
Print Assumptions C06_stable_partial.

(* well-formed messages are measured and serialised consistently by all three serialisers *)
Theorem C06_serialisers_agree_partial : forall (E : env) (m : msg),
  wf_msg E m = true ->
  exists b, pack_msg E m = Ok b /\ size_msg E m = Ok (Z.of_nat (length b)) /\
            exists cs, chunks_msg E m = Ok cs /\ concat cs = b.
Proof. exact size_pack_chunks_agree. Qed.
Print Assumptions C06_serialisers_agree_partial.

(* what the check accepts, the serialisers handle without touching a null pointer *)
Theorem C06_checked_is_serialisable_partial : forall (E : env) (m : msg),
  check_msg E m = Ok true ->
  size_msg E m <> Err ENull /\ pack_msg E m <> Err ENull /\ chunks_msg E m <> Err ENull.
Proof. exact check_safe. Qed.
Print Assumptions C06_checked_is_serialisable_partial.

(* The same for every message whose NORMALISATION is in normal form.  Impl/Norm.v replaces the two
   representation choices of the parser that never reach the wire (array capacity larger than the element count;
   an implicit-presence field explicitly sent with its zero value) by the normal form; serialisation does not see
   the difference (pack_norm), so: what pack writes for m parses back (to the normalisation of m), and serialising
   that result reproduces the bytes.  The check evaluates the hypothesis canon_msg E (norm_msg E m), with the
   extracted predicates, on the parse result of every accepted input it generates and reports the count. *)
Theorem C06_serialisation_ignores_normalisation : forall (E : env), env_ok E = true ->
  forall m, pack_msg E (norm_msg E m) = pack_msg E m.
Proof. exact pack_norm. Qed.
Print Assumptions C06_serialisation_ignores_normalisation.

Theorem C06_stable_when_normal_form : forall (E : env), env_ok E = true -> forall m b,
  canon_msg E (norm_msg E m) = true -> pack_msg E m = Ok b -> Z.of_nat (length b) <= 2147483647 ->
  unpack_top E (m_desc m) b = Ok (norm_msg E m) /\ pack_msg E (norm_msg E m) = Ok b.
Proof. exact stable_via_norm. Qed.
Print Assumptions C06_stable_when_normal_form.

(* The descriptor lookups of the run-time library (protobuf-c.c, "querying the descriptors") applied
   to the descriptors of the generator model (GenModel/Gen.v).

     protobuf_c_message_descriptor_get_field_by_name     msg_field_by_name
     protobuf_c_message_descriptor_get_field             msg_field_by_number
     protobuf_c_enum_descriptor_get_value_by_name        enum_value_by_name
     protobuf_c_enum_descriptor_get_value                enum_value_by_number
     protobuf_c_service_descriptor_get_method_by_name    svc_method_by_name

   The three by-name functions contain the same binary search, modelled once ([name_search]); the
   by-number functions go through int_range_lookup, for which the translated leaf function
   (Gen/LeafC.v) is used as it is.  Results are array indices instead of pointers (None = NULL).

   Hand-written; tied to the library by harness/gen/gencmp.py: desc_dump calls the real functions
   on the real generated descriptors (lines ML MK EL EK SL of harness/GENFORMAT.md), the model
   driver prints the same lines from these definitions.  Plain Gallina, no proofs. *)
From Coq Require Import ZArith List Bool Arith.
From PBC Require Import Base.CInt Gen.LeafC GenModel.Ranges GenModel.Gen.
Import ListNotations.
Local Open Scope Z_scope.

(* strcmp on NUL-free byte strings: unsigned-char lexicographic order *)
Definition strcmp (a b : str) : comparison :=
  if str_eqb a b then Eq else if str_ltb a b then Lt else Gt.

(* The loop
       unsigned start = 0, count = n;
       while (count > 1) {
           unsigned mid = start + count / 2;
           int rv = strcmp(name_of_slot(mid), key);
           if (rv == 0) return slot mid;
           else if (rv < 0) { count = start + count - (mid + 1); start = mid + 1; }
           else count = mid - start;
       }
       if (count == 0) return NULL;
       if (strcmp(name_of_slot(start), key) == 0) return slot start;
       return NULL;
   [names] = name_of_slot for the slots 0 .. n-1 of the by-name table.  start and count are natural
   numbers: start <= mid < start + count holds in every iteration, so none of the unsigned
   subtractions of the C code wraps.  One unit of fuel per iteration; count at least halves, so
   S (length names) is never exhausted (exhaustion gives None). *)
Fixpoint name_search_from (fuel : nat) (names : list str) (key : str) (start count : nat) : option nat :=
  match fuel with
  | O => None
  | S fuel' =>
      if (1 <? count)%nat then
        let mid := (start + count / 2)%nat in
        match strcmp (nth mid names []) key with
        | Eq => Some mid
        | Lt => name_search_from fuel' names key (mid + 1)%nat (start + count - (mid + 1))%nat
        | Gt => name_search_from fuel' names key start (mid - start)%nat
        end
      else if (count =? 0)%nat then None
      else
        match strcmp (nth start names []) key with
        | Eq => Some start
        | _ => None
        end
  end.

(* position in the by-name table of the slot the search ends on *)
Definition name_search (names : list str) (key : str) : option nat :=
  name_search_from (S (length names)) names key 0%nat (length names).

Definition opt_str (o : option str) : str := match o with Some s => s | None => [] end.

(* ---- messages *)

(* field->name of  desc->fields + desc->fields_sorted_by_name[slot] *)
Definition msg_slot_names (m : gmsg) (tbl : list Z) : list str :=
  map (fun i => match nth_error (gm_fields m) (Z.to_nat i) with
                | Some f => opt_str (gf_name f)
                | None => []
                end) tbl.

(* protobuf_c_message_descriptor_get_field_by_name: index into gm_fields.
   (count = desc->n_fields = the length of the table when it is not NULL) *)
Definition msg_field_by_name (m : gmsg) (key : str) : option nat :=
  match gm_fields_sorted_by_name m with
  | None => None                                   (* fields_sorted_by_name == NULL *)
  | Some tbl =>
      match name_search (msg_slot_names m tbl) key with
      | Some slot => Some (Z.to_nat (nth slot tbl 0))
      | None => None
      end
  end.

(* the result of int_range_lookup as an array index *)
Definition range_index (rv : Z) : option nat := if rv <? 0 then None else Some (Z.to_nat rv).

(* protobuf_c_message_descriptor_get_field (desc, unsigned value): the unsigned argument [k]
   (0 <= k < 2^32) is converted to the int parameter of int_range_lookup *)
Definition msg_field_by_number (m : gmsg) (k : Z) : option nat :=
  range_index (int_range_lookup (gm_n_field_ranges m) (gm_field_ranges m) (s32 k)).

(* ---- enums *)

(* protobuf_c_enum_descriptor_get_value_by_name: index into ge_values (the unique values);
   count = desc->n_value_names *)
Definition enum_value_by_name (e : genum) (key : str) : option nat :=
  match ge_values_by_name e with
  | None => None                                   (* values_by_name == NULL *)
  | Some tbl =>
      match name_search (map fst tbl) key with
      | Some slot => Some (Z.to_nat (snd (nth slot tbl ([], 0))))
      | None => None
      end
  end.

(* protobuf_c_enum_descriptor_get_value (desc, int value) *)
Definition enum_value_by_number (e : genum) (v : Z) : option nat :=
  range_index (int_range_lookup (ge_n_value_ranges e) (ge_value_ranges e) v).

(* ---- services *)

(* desc->methods[desc->method_indices_by_name[slot]].name *)
Definition svc_slot_names (s : gsvc) (tbl : list Z) : list str :=
  map (fun i => match nth_error (gs_methods s) (Z.to_nat i) with
                | Some mt => opt_str (gmt_name mt)
                | None => []
                end) tbl.

(* protobuf_c_service_descriptor_get_method_by_name: index into gs_methods; count = desc->n_methods *)
Definition svc_method_by_name (s : gsvc) (key : str) : option nat :=
  match gs_method_indices_by_name s with
  | None => None                                   (* method_indices_by_name == NULL *)
  | Some tbl =>
      match name_search (svc_slot_names s tbl) key with
      | Some slot => Some (Z.to_nat (nth slot tbl 0))
      | None => None
      end
  end.

// ref_driver.cc -- REFERENCE side of the differential harness: the same case files as
// harness/c/impl_driver.c (see ../FORMAT.md, section 4), answered by the system libprotobuf
// (C++, DynamicMessage + reflection) instead of protobuf-c.
//
//   ref_driver [--emulate-proto3] [--lax-utf8] [--why] [<casefile>]       (default: stdin)
//
// Build:
//   g++ -std=c++17 -O1 ref_driver.cc $(pkg-config --cflags --libs protobuf) -o ref_driver
//
// The ENV block is turned into FileDescriptorProtos which are loaded into a DescriptorPool:
//   * message idx is `M<idx>`, field id is `f<id>`; ENUM fields are declared int32 (same wire format,
//     protobuf-c does not validate enum values);
//   * a message with a NONE-labelled field outside a oneof needs proto3 (implicit presence); a message
//     with REQ/OPT labels or explicit defaults needs proto2; anything else goes either way;
//   * one file per strongly connected component of the "has a sub-message of type" graph (files cannot
//     import each other cyclically).  A component whose members disagree on the syntax is declared
//     proto2 and the implicit-presence fields of its proto3 members are declared `optional`; the driver
//     then treats "zero value" as "absent" itself (EMULATED implicit presence: for such a field
//     set-to-zero and unset are indistinguishable in the output and zero values are not serialised).
//     --emulate-proto3 forces this for every message (used to validate the emulation against native
//     proto3 files).
//   * --lax-utf8: proto3 STRING fields are declared `bytes` (same wire format) so that the reference
//     does not reject invalid UTF-8.
//   * --why (diagnostics, breaks the line format): `U FAIL parse-error` / `U FAIL missing-required`.
//
// Output: exactly one line per case line.
//   UNPACK <d> <hex> | REFPARSE <d> <hex>  ->  `U FAIL` | `U <msg>`   (ParsePartialFromString + IsInitialized)
//   PACK <msg>                             ->  `P <len> <hex>`        (deterministic SerializePartial)
//   RAW <hex>                              ->  `R -` | `R <num>:<wt>:<value>...`  (UnknownFieldSet: no schema)
//   anything else                          ->  `ERR unknown op`
// A malformed case line gives `ERR <reason>`.  A schema the reference cannot express gives one line
// `ENVERR <reason>` and exit status 0.
//
// The printed message is the text impl_driver.c prints for the same value, with the unknown fields
// in canonical encoding (see FORMAT.md section 4 for the normal form and harness/gen/refnorm.py).

#include <cmath>
#include <cstdint>
#include <cstdio>
#include <cstdlib>
#include <cstring>
#include <fstream>
#include <functional>
#include <iostream>
#include <map>
#include <memory>
#include <stdexcept>
#include <string>
#include <vector>

#include <google/protobuf/descriptor.h>
#include <google/protobuf/descriptor.pb.h>
#include <google/protobuf/dynamic_message.h>
#include <google/protobuf/io/coded_stream.h>
#include <google/protobuf/io/zero_copy_stream_impl_lite.h>
#include <google/protobuf/message.h>
#include <google/protobuf/stubs/logging.h>
#include <google/protobuf/unknown_field_set.h>

namespace gp = google::protobuf;
using gp::Descriptor;
using gp::FieldDescriptor;
using gp::FieldDescriptorProto;
using gp::Message;
using gp::Reflection;

// --------------------------------------------------------------------------------------------
// schema
// --------------------------------------------------------------------------------------------

enum {
  T_INT32, T_SINT32, T_SFIXED32, T_INT64, T_SINT64, T_SFIXED64, T_UINT32, T_FIXED32, T_UINT64,
  T_FIXED64, T_FLOAT, T_DOUBLE, T_BOOL, T_ENUM, T_STRING, T_BYTES, T_MESSAGE, T_COUNT
};
static const char *const kTypeNames[T_COUNT] = {
    "INT32", "SINT32", "SFIXED32", "INT64", "SINT64", "SFIXED64", "UINT32", "FIXED32", "UINT64",
    "FIXED64", "FLOAT", "DOUBLE", "BOOL", "ENUM", "STRING", "BYTES", "MESSAGE"};
enum { L_REQ, L_OPT, L_REP, L_NONE };

static bool is4(int t) {
  switch (t) {
    case T_INT32: case T_SINT32: case T_SFIXED32: case T_UINT32: case T_FIXED32: case T_FLOAT:
    case T_BOOL: case T_ENUM:
      return true;
    default:
      return false;
  }
}
static bool is_scalar(int t) { return t != T_STRING && t != T_BYTES && t != T_MESSAGE; }

struct FieldInfo {
  uint32_t id = 0;
  int label = L_OPT, type = T_INT32;
  char quant = 'N';  // N H K C
  unsigned group = 0;
  bool packed = false, oneof_flag = false;
  int sub = -1;
  char defkind = 0;  // 0, 'W', 'S', 'B'
  uint64_t defw = 0;
  std::string defs;
  bool implicit = false;  // NONE label outside a oneof: zero value == absent
  const FieldDescriptor *fd = nullptr;
};

struct MsgInfo {
  std::vector<FieldInfo> f;
  unsigned n_oneofs = 0;
  bool need2 = false, need3 = false, emulate = false;
  int scc = -1;
  const Descriptor *d = nullptr;
  std::vector<const gp::OneofDescriptor *> oneofs;  // by group index (nullptr: group without members)
};

static std::vector<MsgInfo> g_msgs;
static std::map<const Descriptor *, int> g_idx_of;
static bool g_force_emulate = false, g_lax_utf8 = false, g_why = false;

struct EnvError : std::runtime_error {
  using std::runtime_error::runtime_error;
};
struct CaseError : std::runtime_error {
  using std::runtime_error::runtime_error;
};

static std::vector<std::string> split(const std::string &s) {
  std::vector<std::string> out;
  size_t i = 0;
  while (true) {
    size_t j = s.find(' ', i);
    if (j == std::string::npos) {
      out.push_back(s.substr(i));
      break;
    }
    out.push_back(s.substr(i, j - i));
    i = j + 1;
  }
  return out;
}

static int hexval(char c) {
  if (c >= '0' && c <= '9') return c - '0';
  if (c >= 'a' && c <= 'f') return c - 'a' + 10;
  if (c >= 'A' && c <= 'F') return c - 'A' + 10;
  return -1;
}

template <class E>
static std::string hex_decode(const std::string &s) {
  if (s == "-") return std::string();
  if (s.empty() || (s.size() & 1)) throw E("bad hex string");
  std::string out(s.size() / 2, '\0');
  for (size_t i = 0; i < out.size(); i++) {
    int hi = hexval(s[2 * i]), lo = hexval(s[2 * i + 1]);
    if ((hi | lo) < 0) throw E("bad hex digit");
    out[i] = static_cast<char>(hi << 4 | lo);
  }
  return out;
}

template <class E>
static uint64_t parse_hex64(const std::string &s) {
  if (s.empty() || s.size() > 16) throw E("bad hex64");
  uint64_t v = 0;
  for (char c : s) {
    int h = hexval(c);
    if (h < 0) throw E("bad hex64");
    v = v << 4 | static_cast<unsigned>(h);
  }
  return v;
}

template <class E>
static uint64_t parse_u64(const std::string &s, const char *what) {
  if (s.empty()) throw E(std::string("empty token where ") + what + " expected");
  uint64_t v = 0;
  for (char c : s) {
    if (c < '0' || c > '9') throw E(std::string("bad ") + what);
    unsigned d = static_cast<unsigned>(c - '0');
    if (v > (UINT64_MAX - d) / 10) throw E(std::string(what) + " out of range");
    v = v * 10 + d;
  }
  return v;
}

static void parse_field_line(const std::vector<std::string> &t, MsgInfo &mi, unsigned nmsgs) {
  if (t.size() != 9) throw EnvError("F line needs 8 arguments");
  FieldInfo f;
  uint64_t id = parse_u64<EnvError>(t[1], "field id");
  if (id == 0 || id > 536870911ull) throw EnvError("field number " + t[1] + " outside 1..2^29-1");
  if (id >= 19000 && id <= 19999) throw EnvError("field number " + t[1] + " is in the range reserved by protobuf");
  f.id = static_cast<uint32_t>(id);
  if (!mi.f.empty() && mi.f.back().id >= f.id) throw EnvError("field ids must be strictly ascending");
  if (t[2] == "REQ") f.label = L_REQ;
  else if (t[2] == "OPT") f.label = L_OPT;
  else if (t[2] == "REP") f.label = L_REP;
  else if (t[2] == "NONE") f.label = L_NONE;
  else throw EnvError("bad label " + t[2]);
  int ty;
  for (ty = 0; ty < T_COUNT; ty++)
    if (t[3] == kTypeNames[ty]) break;
  if (ty == T_COUNT) throw EnvError("bad type " + t[3]);
  f.type = ty;
  if (t[4] == "N" || t[4] == "H" || t[4] == "K") {
    f.quant = t[4][0];
  } else if (t[4].size() > 1 && t[4][0] == 'C') {
    f.quant = 'C';
    f.group = static_cast<unsigned>(parse_u64<EnvError>(t[4].substr(1), "oneof group"));
    if (f.group >= mi.n_oneofs) throw EnvError("oneof group out of range");
  } else {
    throw EnvError("bad quant " + t[4]);
  }
  if (t[5] != "0" && t[5] != "1" && t[5] != "2" && t[5] != "3") throw EnvError("bad packed flag");
  if (t[6] != "0" && t[6] != "1") throw EnvError("bad oneof flag");
  f.packed = t[5] == "1" || t[5] == "3";   // bit 1 = DEPRECATED, ignored here
  f.oneof_flag = t[6] == "1";
  if (f.type == T_MESSAGE) {
    uint64_t sub = parse_u64<EnvError>(t[7], "sub");
    if (sub >= nmsgs) throw EnvError("sub-message index out of range");
    f.sub = static_cast<int>(sub);
  } else if (t[7] != "-") {
    throw EnvError("sub must be - for a non-message field");
  }
  const std::string &d = t[8];
  if (d == "-") {
  } else if (d.size() >= 2 && d[1] == ':' && d[0] == 'W') {
    if (!is_scalar(f.type)) throw EnvError("W default on a non-scalar field");
    f.defkind = 'W';
    f.defw = parse_hex64<EnvError>(d.substr(2));
    if (is4(f.type)) f.defw &= 0xffffffffull;
  } else if (d.size() >= 2 && d[1] == ':' && (d[0] == 'S' || d[0] == 'B')) {
    if ((d[0] == 'S') != (f.type == T_STRING) || (d[0] == 'B') != (f.type == T_BYTES))
      throw EnvError("S/B default on a field of another type");
    f.defkind = d[0];
    f.defs = hex_decode<EnvError>(d.size() == 2 ? "-" : d.substr(2));
  } else {
    throw EnvError("bad default " + d);
  }
  // what the reference schema language can express
  if ((f.quant == 'C') != f.oneof_flag) throw EnvError("oneof flag and quantifier kind C disagree");
  if (f.quant == 'C' && (f.label == L_REP || f.label == L_REQ))
    throw EnvError("a oneof member must be a singular optional field");
  if (f.label == L_REP && f.quant != 'K') throw EnvError("repeated field without a count (quant K)");
  if (f.label != L_REP && f.quant == 'K') throw EnvError("singular field with a count (quant K)");
  if (f.packed && !(f.label == L_REP && is_scalar(f.type)))
    throw EnvError("packed flag on a field that is not a repeated scalar");
  if (f.label == L_REP && f.defkind) throw EnvError("default on a repeated field");
  if (f.quant == 'C' && f.defkind) throw EnvError("default on a oneof member");
  f.implicit = f.label == L_NONE && f.quant != 'C';
  if (f.implicit) {
    // proto3 has no explicit defaults: only a default equal to the zero value is expressible
    if ((f.defkind == 'W' && f.defw != 0) || ((f.defkind == 'S' || f.defkind == 'B') && !f.defs.empty()))
      throw EnvError("non-zero default on an implicit-presence (NONE) field");
    mi.need3 = true;
  } else if (f.label == L_REQ || (f.label == L_OPT && f.quant != 'C') || f.defkind) {
    mi.need2 = true;
  }
  mi.f.push_back(f);
}

static void read_env(std::istream &in) {
  std::string line;
  int state = 0;
  unsigned nmsgs = 0, nf_expected = 0;
  while (state != 3 && std::getline(in, line)) {
    while (!line.empty() && (line.back() == '\r' || line.back() == '\n')) line.pop_back();
    if (line.empty() || line[0] == '#') continue;
    std::vector<std::string> t = split(line);
    if (state == 0) {
      if (t[0] != "ENV" || t.size() != 2) throw EnvError("expected ENV <nmsgs>");
      uint64_t n = parse_u64<EnvError>(t[1], "nmsgs");
      if (n > 100000) throw EnvError("too many messages");
      nmsgs = static_cast<unsigned>(n);
      g_msgs.reserve(nmsgs);
      state = 1;
    } else if (state == 1 && t[0] == "MSG") {
      if (t.size() != 5) throw EnvError("MSG line needs 4 arguments");
      if (parse_u64<EnvError>(t[1], "idx") != g_msgs.size() || g_msgs.size() >= nmsgs)
        throw EnvError("MSG index out of order");
      g_msgs.emplace_back();
      nf_expected = static_cast<unsigned>(parse_u64<EnvError>(t[2], "nfields"));
      g_msgs.back().n_oneofs = static_cast<unsigned>(parse_u64<EnvError>(t[3], "n_oneofs"));
      if (nf_expected) state = 2;
    } else if (state == 1 && t[0] == "END") {
      if (g_msgs.size() != nmsgs) throw EnvError("END before all MSG blocks");
      state = 3;
    } else if (state == 2 && t[0] == "F") {
      parse_field_line(t, g_msgs.back(), nmsgs);
      if (g_msgs.back().f.size() == nf_expected) state = 1;
    } else {
      throw EnvError("unexpected schema line: " + line.substr(0, 40));
    }
  }
  if (state != 3) throw EnvError("schema section not terminated by END");
}

// Tarjan: components come out dependencies-first
static void compute_sccs(std::vector<std::vector<int>> &comps) {
  int n = static_cast<int>(g_msgs.size()), counter = 0;
  std::vector<int> index(n, -1), low(n, 0), stack;
  std::vector<bool> on(n, false);
  std::function<void(int)> visit = [&](int v) {
    index[v] = low[v] = counter++;
    stack.push_back(v);
    on[v] = true;
    for (const FieldInfo &f : g_msgs[v].f) {
      if (f.sub < 0) continue;
      int w = f.sub;
      if (index[w] < 0) {
        visit(w);
        low[v] = std::min(low[v], low[w]);
      } else if (on[w]) {
        low[v] = std::min(low[v], index[w]);
      }
    }
    if (low[v] == index[v]) {
      std::vector<int> c;
      int w;
      do {
        w = stack.back();
        stack.pop_back();
        on[w] = false;
        g_msgs[w].scc = static_cast<int>(comps.size());
        c.push_back(w);
      } while (w != v);
      comps.push_back(c);
    }
  };
  for (int v = 0; v < n; v++)
    if (index[v] < 0) visit(v);
}

static std::string float_text(double v) {
  if (std::isnan(v)) return "nan";
  if (std::isinf(v)) return v < 0 ? "-inf" : "inf";
  char buf[64];
  snprintf(buf, sizeof buf, "%.17g", v);
  return buf;
}

static std::string default_text(const FieldInfo &f) {
  char buf[64];
  switch (f.type) {
    case T_INT32: case T_SINT32: case T_SFIXED32: case T_ENUM:
      snprintf(buf, sizeof buf, "%d", static_cast<int>(static_cast<int32_t>(static_cast<uint32_t>(f.defw))));
      return buf;
    case T_UINT32: case T_FIXED32:
      snprintf(buf, sizeof buf, "%u", static_cast<unsigned>(f.defw));
      return buf;
    case T_INT64: case T_SINT64: case T_SFIXED64:
      snprintf(buf, sizeof buf, "%lld", static_cast<long long>(f.defw));
      return buf;
    case T_UINT64: case T_FIXED64:
      snprintf(buf, sizeof buf, "%llu", static_cast<unsigned long long>(f.defw));
      return buf;
    case T_BOOL:
      return f.defw ? "true" : "false";
    case T_FLOAT: {
      uint32_t b = static_cast<uint32_t>(f.defw);
      float v;
      memcpy(&v, &b, 4);
      if (std::isnan(v) || std::isinf(v)) return float_text(v);
      snprintf(buf, sizeof buf, "%.9g", static_cast<double>(v));
      return buf;
    }
    case T_DOUBLE: {
      double v;
      memcpy(&v, &f.defw, 8);
      return float_text(v);
    }
    case T_STRING:
      return f.defs;
    case T_BYTES: {
      std::string r;
      for (unsigned char c : f.defs) {
        snprintf(buf, sizeof buf, "\\%03o", c);
        r += buf;
      }
      return r;
    }
  }
  return "";
}

static FieldDescriptorProto::Type proto_type(const FieldInfo &f, bool proto3_file) {
  switch (f.type) {
    case T_INT32: return FieldDescriptorProto::TYPE_INT32;
    case T_SINT32: return FieldDescriptorProto::TYPE_SINT32;
    case T_SFIXED32: return FieldDescriptorProto::TYPE_SFIXED32;
    case T_INT64: return FieldDescriptorProto::TYPE_INT64;
    case T_SINT64: return FieldDescriptorProto::TYPE_SINT64;
    case T_SFIXED64: return FieldDescriptorProto::TYPE_SFIXED64;
    case T_UINT32: return FieldDescriptorProto::TYPE_UINT32;
    case T_FIXED32: return FieldDescriptorProto::TYPE_FIXED32;
    case T_UINT64: return FieldDescriptorProto::TYPE_UINT64;
    case T_FIXED64: return FieldDescriptorProto::TYPE_FIXED64;
    case T_FLOAT: return FieldDescriptorProto::TYPE_FLOAT;
    case T_DOUBLE: return FieldDescriptorProto::TYPE_DOUBLE;
    case T_BOOL: return FieldDescriptorProto::TYPE_BOOL;
    case T_ENUM: return FieldDescriptorProto::TYPE_INT32;  // no enum descriptor in ENV; same wire format
    case T_STRING:
      return (proto3_file && g_lax_utf8) ? FieldDescriptorProto::TYPE_BYTES : FieldDescriptorProto::TYPE_STRING;
    case T_BYTES: return FieldDescriptorProto::TYPE_BYTES;
    case T_MESSAGE: return FieldDescriptorProto::TYPE_MESSAGE;
  }
  return FieldDescriptorProto::TYPE_INT32;
}

class Collector : public gp::DescriptorPool::ErrorCollector {
 public:
  std::string first;
  void AddError(const std::string &filename, const std::string &element_name, const Message *,
                ErrorLocation, const std::string &message) override {
    if (first.empty()) first = filename + ": " + element_name + ": " + message;
  }
};

static gp::DescriptorPool g_pool;
static std::unique_ptr<gp::DynamicMessageFactory> g_factory;

static void build_pool() {
  std::vector<std::vector<int>> comps;
  compute_sccs(comps);
  std::vector<bool> comp_proto3(comps.size(), false);
  for (size_t c = 0; c < comps.size(); c++) {
    bool any2 = false, any3 = false;
    for (int m : comps[c]) {
      MsgInfo &mi = g_msgs[m];
      if (g_force_emulate || (mi.need2 && mi.need3)) mi.emulate = mi.need3;
      if (mi.need2 || mi.emulate) any2 = true;
      else if (mi.need3) any3 = true;
    }
    if (any2 && any3) {
      for (int m : comps[c])
        if (g_msgs[m].need3) g_msgs[m].emulate = true;
      any3 = false;
    }
    comp_proto3[c] = any3;
  }
  for (size_t c = 0; c < comps.size(); c++) {
    gp::FileDescriptorProto fp;
    bool p3 = comp_proto3[c];
    fp.set_name("scc" + std::to_string(c) + ".proto");
    fp.set_syntax(p3 ? "proto3" : "proto2");
    std::vector<bool> dep(comps.size(), false);
    for (int m : comps[c]) {
      MsgInfo &mi = g_msgs[m];
      gp::DescriptorProto *dp = fp.add_message_type();
      dp->set_name("M" + std::to_string(m));
      // real oneofs first (only groups that have members), synthetic ones (proto3 optional) after them
      std::vector<int> decl_of_group(mi.n_oneofs, -1);
      for (const FieldInfo &f : mi.f)
        if (f.quant == 'C' && decl_of_group[f.group] < 0) decl_of_group[f.group] = 0;
      int ndecl = 0;
      for (unsigned g = 0; g < mi.n_oneofs; g++)
        if (decl_of_group[g] == 0) {
          decl_of_group[g] = ndecl++;
          dp->add_oneof_decl()->set_name("g" + std::to_string(g));
        }
      auto add_field = [&](const FieldInfo &f) {
        FieldDescriptorProto *q = dp->add_field();
        q->set_name("f" + std::to_string(f.id));
        q->set_number(static_cast<int>(f.id));
        q->set_type(proto_type(f, p3));
        if (f.type == T_MESSAGE) {
          q->set_type_name(".M" + std::to_string(f.sub));
          if (g_msgs[f.sub].scc != static_cast<int>(c)) dep[g_msgs[f.sub].scc] = true;
        }
        q->set_label(f.label == L_REQ   ? FieldDescriptorProto::LABEL_REQUIRED
                     : f.label == L_REP ? FieldDescriptorProto::LABEL_REPEATED
                                        : FieldDescriptorProto::LABEL_OPTIONAL);
        if (f.label == L_REP && is_scalar(f.type)) q->mutable_options()->set_packed(f.packed);
        if (f.quant == 'C') q->set_oneof_index(decl_of_group[f.group]);
        if (f.defkind && !p3 && !f.implicit) q->set_default_value(default_text(f));
        if (p3 && f.label == L_OPT && f.quant != 'C') {
          // cannot happen today (OPT makes the message proto2) but keep the schema well-formed
          q->set_proto3_optional(true);
          q->set_oneof_index(ndecl++);
          dp->add_oneof_decl()->set_name("_f" + std::to_string(f.id));
        }
      };
      // members of one oneof must be declared consecutively; declaration order is irrelevant for
      // the wire format (serialisation is by field number) and the driver prints in ENV order
      for (const FieldInfo &f : mi.f)
        if (f.quant != 'C') add_field(f);
      for (unsigned g = 0; g < mi.n_oneofs; g++)
        for (const FieldInfo &f : mi.f)
          if (f.quant == 'C' && f.group == g) add_field(f);
    }
    for (size_t k = 0; k < comps.size(); k++)
      if (dep[k]) fp.add_dependency("scc" + std::to_string(k) + ".proto");
    Collector col;
    const gp::FileDescriptor *fd = g_pool.BuildFileCollectingErrors(fp, &col);
    if (!fd) throw EnvError("reference rejects the schema: " + col.first);
    for (int m : comps[c]) {
      MsgInfo &mi = g_msgs[m];
      mi.d = fd->FindMessageTypeByName("M" + std::to_string(m));
      if (!mi.d) throw EnvError("internal: message not found after BuildFile");
      g_idx_of[mi.d] = m;
      for (FieldInfo &f : mi.f) {
        f.fd = mi.d->FindFieldByNumber(static_cast<int>(f.id));
        if (!f.fd) throw EnvError("internal: field not found after BuildFile");
      }
      mi.oneofs.assign(mi.n_oneofs, nullptr);
      for (unsigned g = 0; g < mi.n_oneofs; g++)
        mi.oneofs[g] = mi.d->FindOneofByName("g" + std::to_string(g));
    }
  }
  g_factory.reset(new gp::DynamicMessageFactory(&g_pool));
}

// --------------------------------------------------------------------------------------------
// output helpers
// --------------------------------------------------------------------------------------------

static const char kHex[] = "0123456789abcdef";

static void put_hex(std::string &o, const std::string &s) {
  if (s.empty()) {
    o.push_back('-');
    return;
  }
  for (unsigned char c : s) {
    o.push_back(kHex[c >> 4]);
    o.push_back(kHex[c & 15]);
  }
}
static void put_hex64(std::string &o, uint64_t v) {
  for (int i = 15; i >= 0; i--) o.push_back(kHex[(v >> (4 * i)) & 15]);
}
static void put_u64(std::string &o, uint64_t v) { o += std::to_string(v); }
static void put_sp_u64(std::string &o, uint64_t v) {
  o.push_back(' ');
  put_u64(o, v);
}
static void put_varint(std::string &o, uint64_t v) {
  while (v >= 0x80) {
    o.push_back(static_cast<char>((v & 0x7f) | 0x80));
    v >>= 7;
  }
  o.push_back(static_cast<char>(v));
}

// --------------------------------------------------------------------------------------------
// reading values through reflection; idx < 0: singular
// --------------------------------------------------------------------------------------------

static uint64_t get_word(const Message &m, const FieldDescriptor *fd, int idx) {
  const Reflection *r = m.GetReflection();
  switch (fd->cpp_type()) {
    case FieldDescriptor::CPPTYPE_INT32:
      return static_cast<uint32_t>(idx < 0 ? r->GetInt32(m, fd) : r->GetRepeatedInt32(m, fd, idx));
    case FieldDescriptor::CPPTYPE_UINT32:
      return idx < 0 ? r->GetUInt32(m, fd) : r->GetRepeatedUInt32(m, fd, idx);
    case FieldDescriptor::CPPTYPE_INT64:
      return static_cast<uint64_t>(idx < 0 ? r->GetInt64(m, fd) : r->GetRepeatedInt64(m, fd, idx));
    case FieldDescriptor::CPPTYPE_UINT64:
      return idx < 0 ? r->GetUInt64(m, fd) : r->GetRepeatedUInt64(m, fd, idx);
    case FieldDescriptor::CPPTYPE_FLOAT: {
      float v = idx < 0 ? r->GetFloat(m, fd) : r->GetRepeatedFloat(m, fd, idx);
      uint32_t b;
      memcpy(&b, &v, 4);
      return b;
    }
    case FieldDescriptor::CPPTYPE_DOUBLE: {
      double v = idx < 0 ? r->GetDouble(m, fd) : r->GetRepeatedDouble(m, fd, idx);
      uint64_t b;
      memcpy(&b, &v, 8);
      return b;
    }
    case FieldDescriptor::CPPTYPE_BOOL:
      return (idx < 0 ? r->GetBool(m, fd) : r->GetRepeatedBool(m, fd, idx)) ? 1 : 0;
    default:
      return 0;
  }
}

static void print_msg(std::string &o, const Message &m);

// " <cell>" for a value that is present
static void print_value(std::string &o, const Message &m, const FieldInfo &f, int idx) {
  const Reflection *r = m.GetReflection();
  const FieldDescriptor *fd = f.fd;
  if (is_scalar(f.type)) {
    o += " W ";
    put_hex64(o, get_word(m, fd, idx));
  } else if (f.type == T_MESSAGE) {
    o += " G";
    print_msg(o, idx < 0 ? r->GetMessage(m, fd) : r->GetRepeatedMessage(m, fd, idx));
  } else {
    std::string scratch;
    const std::string &s =
        idx < 0 ? r->GetStringReference(m, fd, &scratch) : r->GetRepeatedStringReference(m, fd, idx, &scratch);
    if (f.type == T_STRING) {
      o += " T H ";
      put_hex(o, s);
    } else if (s.empty()) {
      o += " B 0 N";  // protobuf-c stores an empty bytes value as {0, NULL}
    } else {
      o += " B";
      put_sp_u64(o, s.size());
      o += " H ";
      put_hex(o, s);
    }
  }
}

// " <cell>": the initial state of a singular member that did not occur on the wire
static void print_absent(std::string &o, const FieldInfo &f) {
  if (is_scalar(f.type)) {
    o += " W ";
    put_hex64(o, f.defkind == 'W' ? f.defw : 0);
  } else if (f.type == T_STRING) {
    o += f.defkind == 'S' ? " T D" : " T N";
  } else if (f.type == T_BYTES) {
    if (f.defkind == 'B') {
      o += " B";
      put_sp_u64(o, f.defs.size());
      o += " D";
    } else {
      o += " B 0 N";
    }
  } else {
    o += " G N";
  }
}

static void print_unknown(std::string &o, const gp::UnknownFieldSet &u) {
  put_sp_u64(o, static_cast<uint64_t>(u.field_count()));
  for (int i = 0; i < u.field_count(); i++) {
    const gp::UnknownField &f = u.field(i);
    std::string data;
    unsigned wt = 0;
    switch (f.type()) {
      case gp::UnknownField::TYPE_VARINT:
        wt = 0;
        put_varint(data, f.varint());
        break;
      case gp::UnknownField::TYPE_FIXED32: {
        wt = 5;
        uint32_t v = f.fixed32();
        for (int k = 0; k < 4; k++) data.push_back(static_cast<char>(v >> (8 * k)));
        break;
      }
      case gp::UnknownField::TYPE_FIXED64: {
        wt = 1;
        uint64_t v = f.fixed64();
        for (int k = 0; k < 8; k++) data.push_back(static_cast<char>(v >> (8 * k)));
        break;
      }
      case gp::UnknownField::TYPE_LENGTH_DELIMITED:
        wt = 2;
        put_varint(data, f.length_delimited().size());
        data += f.length_delimited();
        break;
      case gp::UnknownField::TYPE_GROUP:
        // not representable in protobuf-c (it rejects groups): the group's fields, serialised
        wt = 3;
        f.group().SerializeToString(&data);
        break;
    }
    put_sp_u64(o, static_cast<uint64_t>(f.number()));
    put_sp_u64(o, wt);
    o.push_back(' ');
    put_hex(o, data);
  }
}

static void print_msg(std::string &o, const Message &m) {
  const Reflection *r = m.GetReflection();
  auto it = g_idx_of.find(m.GetDescriptor());
  if (it == g_idx_of.end()) throw CaseError("internal: foreign descriptor");
  const MsgInfo &mi = g_msgs[it->second];
  o += " M";
  put_sp_u64(o, static_cast<uint64_t>(it->second));
  put_sp_u64(o, mi.f.size());
  for (const FieldInfo &f : mi.f) {
    if (f.quant == 'C') {
      o += " U";
      put_sp_u64(o, f.group);
    } else if (f.label == L_REP) {
      int n = r->FieldSize(m, f.fd);
      o += " R";
      put_sp_u64(o, static_cast<uint64_t>(n));
      put_sp_u64(o, static_cast<uint64_t>(n));
      if (n == 0) {
        o += " N";
      } else {
        o += " A";
        put_sp_u64(o, static_cast<uint64_t>(n));
        for (int j = 0; j < n; j++) print_value(o, m, f, j);
      }
    } else {
      bool present;
      if (f.implicit && f.type != T_MESSAGE) {
        // implicit presence (native proto3 or emulated): the zero value is the absent state
        if (is_scalar(f.type)) {
          present = true;  // the stored value, zero when absent
        } else {
          std::string scratch;
          present = !r->GetStringReference(m, f.fd, &scratch).empty();
        }
      } else {
        present = r->HasField(m, f.fd);
      }
      o += " S";
      put_sp_u64(o, (f.quant == 'H' && present) ? 1 : 0);
      if (present) print_value(o, m, f, -1);
      else print_absent(o, f);
    }
  }
  put_sp_u64(o, mi.n_oneofs);
  for (unsigned g = 0; g < mi.n_oneofs; g++) {
    const FieldDescriptor *sel = mi.oneofs[g] ? r->GetOneofFieldDescriptor(m, mi.oneofs[g]) : nullptr;
    const FieldInfo *fi = nullptr;
    if (sel)
      for (const FieldInfo &f : mi.f)
        if (f.fd == sel) fi = &f;
    if (fi) {
      put_sp_u64(o, fi->id);
      print_value(o, m, *fi, -1);
    } else {
      o += " 0 W 0000000000000000";
    }
  }
  print_unknown(o, r->GetUnknownFields(m));
}

// --------------------------------------------------------------------------------------------
// message text -> DynamicMessage (PACK)
// --------------------------------------------------------------------------------------------

struct PMsg;
struct PCell {
  char kind = 'W';  // W T B G
  uint64_t w = 0;
  char ptr = 'N';  // N D H
  std::string bytes;
  uint64_t blen = 0;
  std::shared_ptr<PMsg> msg;
};
struct PSlot {
  char kind = 'S';  // S R U
  uint64_t has = 0, n = 0;
  bool arr = false;
  PCell cell;
  std::vector<PCell> elems;
};
struct PUnk {
  uint64_t tag, wt;
  std::string data;
};
struct PMsg {
  unsigned d = 0;
  std::vector<PSlot> slots;
  std::vector<std::pair<uint64_t, PCell>> unions;
  std::vector<PUnk> unk;
};

struct Toks {
  const std::vector<std::string> &t;
  size_t i;
  const std::string &next() {
    if (i >= t.size()) throw CaseError("unexpected end of line");
    return t[i++];
  }
  uint64_t u64(const char *what) { return parse_u64<CaseError>(next(), what); }
  bool done() const { return i >= t.size(); }
};

static std::shared_ptr<PMsg> parse_msg(Toks &tk);  // after the M token

static void parse_ptr(Toks &tk, PCell &c) {
  const std::string &p = tk.next();
  if (p == "N" || p == "D") {
    c.ptr = p[0];
  } else if (p == "H") {
    c.ptr = 'H';
    c.bytes = hex_decode<CaseError>(tk.next());
  } else {
    throw CaseError("bad ptr");
  }
}

static PCell parse_cell(Toks &tk) {
  PCell c;
  const std::string &k = tk.next();
  if (k == "W") {
    c.kind = 'W';
    c.w = parse_hex64<CaseError>(tk.next());
  } else if (k == "T") {
    c.kind = 'T';
    parse_ptr(tk, c);
  } else if (k == "B") {
    c.kind = 'B';
    c.blen = tk.u64("bytes len");
    parse_ptr(tk, c);
  } else if (k == "G") {
    c.kind = 'G';
    const std::string &p = tk.next();
    if (p == "M") c.msg = parse_msg(tk);
    else if (p != "N") throw CaseError("bad optmsg");
  } else {
    throw CaseError("bad cell");
  }
  return c;
}

static std::shared_ptr<PMsg> parse_msg(Toks &tk) {
  auto pm = std::make_shared<PMsg>();
  uint64_t d = tk.u64("descriptor index");
  if (d >= g_msgs.size()) throw CaseError("descriptor index out of range");
  pm->d = static_cast<unsigned>(d);
  const MsgInfo &mi = g_msgs[pm->d];
  if (tk.u64("nslots") != mi.f.size()) throw CaseError("nslots != nfields");
  for (size_t i = 0; i < mi.f.size(); i++) {
    PSlot s;
    const std::string &k = tk.next();
    if (k == "S") {
      s.kind = 'S';
      const std::string &h = tk.next();
      s.has = (!h.empty() && h[0] == '-') ? (0 - parse_u64<CaseError>(h.substr(1), "has")) : parse_u64<CaseError>(h, "has");
      s.cell = parse_cell(tk);
    } else if (k == "R") {
      s.kind = 'R';
      s.n = tk.u64("n");
      (void)tk.u64("cap");
      const std::string &a = tk.next();
      if (a == "A") {
        s.arr = true;
        uint64_t cnt = tk.u64("array count");
        if (cnt > (1ull << 32)) throw CaseError("array count too large");
        for (uint64_t j = 0; j < cnt; j++) s.elems.push_back(parse_cell(tk));
      } else if (a != "N") {
        throw CaseError("bad arr");
      }
    } else if (k == "U") {
      s.kind = 'U';
      (void)tk.u64("oneof group");
    } else {
      throw CaseError("bad slot");
    }
    pm->slots.push_back(std::move(s));
  }
  if (tk.u64("nunions") != mi.n_oneofs) throw CaseError("nunions != n_oneofs");
  for (unsigned g = 0; g < mi.n_oneofs; g++) {
    uint64_t cs = tk.u64("case");
    pm->unions.emplace_back(cs, parse_cell(tk));
  }
  uint64_t nunk = tk.u64("nunk");
  for (uint64_t i = 0; i < nunk; i++) {
    PUnk u;
    u.tag = tk.u64("unknown tag");
    u.wt = tk.u64("unknown wire type");
    u.data = hex_decode<CaseError>(tk.next());
    pm->unk.push_back(std::move(u));
  }
  return pm;
}

static void apply_msg(const PMsg &pm, Message *m);

static std::string cell_bytes(const PCell &c, const FieldInfo &f) {
  if (c.kind == 'T') {
    if (c.ptr == 'H') return c.bytes;
    if (c.ptr == 'D') return f.defkind == 'S' ? f.defs : std::string();
    return std::string();
  }
  std::string s = c.ptr == 'H' ? c.bytes : (c.ptr == 'D' && f.defkind == 'B') ? f.defs : std::string();
  if (s.size() > c.blen) s.resize(c.blen);
  return s;
}

// store a cell into field f of m (add: append to a repeated field)
static void set_cell(Message *m, const FieldInfo &f, const PCell &c, bool add) {
  const Reflection *r = m->GetReflection();
  const FieldDescriptor *fd = f.fd;
  if (is_scalar(f.type)) {
    if (c.kind != 'W') throw CaseError("cell kind does not fit the field type");
    uint64_t w = is4(f.type) ? (c.w & 0xffffffffull) : c.w;
    switch (fd->cpp_type()) {
      case FieldDescriptor::CPPTYPE_INT32: {
        int32_t v = static_cast<int32_t>(static_cast<uint32_t>(w));
        add ? r->AddInt32(m, fd, v) : r->SetInt32(m, fd, v);
        break;
      }
      case FieldDescriptor::CPPTYPE_UINT32: {
        uint32_t v = static_cast<uint32_t>(w);
        add ? r->AddUInt32(m, fd, v) : r->SetUInt32(m, fd, v);
        break;
      }
      case FieldDescriptor::CPPTYPE_INT64: {
        int64_t v = static_cast<int64_t>(w);
        add ? r->AddInt64(m, fd, v) : r->SetInt64(m, fd, v);
        break;
      }
      case FieldDescriptor::CPPTYPE_UINT64:
        add ? r->AddUInt64(m, fd, w) : r->SetUInt64(m, fd, w);
        break;
      case FieldDescriptor::CPPTYPE_FLOAT: {
        uint32_t b = static_cast<uint32_t>(w);
        float v;
        memcpy(&v, &b, 4);
        add ? r->AddFloat(m, fd, v) : r->SetFloat(m, fd, v);
        break;
      }
      case FieldDescriptor::CPPTYPE_DOUBLE: {
        double v;
        memcpy(&v, &w, 8);
        add ? r->AddDouble(m, fd, v) : r->SetDouble(m, fd, v);
        break;
      }
      case FieldDescriptor::CPPTYPE_BOOL:
        add ? r->AddBool(m, fd, w != 0) : r->SetBool(m, fd, w != 0);
        break;
      default:
        throw CaseError("internal: scalar cpp type");
    }
  } else if (f.type == T_MESSAGE) {
    if (c.kind != 'G') throw CaseError("cell kind does not fit the field type");
    if (!c.msg) throw CaseError("null sub-message where a value is needed");
    if (c.msg->d != static_cast<unsigned>(f.sub)) throw CaseError("sub-message of the wrong type");
    Message *sm = add ? r->AddMessage(m, fd, g_factory.get()) : r->MutableMessage(m, fd, g_factory.get());
    apply_msg(*c.msg, sm);
  } else {
    if (c.kind != (f.type == T_STRING ? 'T' : 'B')) throw CaseError("cell kind does not fit the field type");
    std::string s = cell_bytes(c, f);
    add ? r->AddString(m, fd, s) : r->SetString(m, fd, s);
  }
}

static bool cell_is_zero(const PCell &c, const FieldInfo &f) {
  switch (c.kind) {
    case 'W': return (is4(f.type) ? (c.w & 0xffffffffull) : c.w) == 0;
    case 'T': return c.ptr != 'H' || c.bytes.empty();
    case 'B': return cell_bytes(c, f).empty();
    default: return !c.msg;
  }
}

static bool decode_varint(const std::string &s, size_t &pos, uint64_t &v) {
  v = 0;
  for (unsigned i = 0; i < 10 && pos < s.size(); i++) {
    unsigned char b = static_cast<unsigned char>(s[pos++]);
    if (i * 7 < 64) v |= static_cast<uint64_t>(b & 0x7f) << (7 * i);
    if (!(b & 0x80)) return true;
  }
  return false;
}

static void apply_msg(const PMsg &pm, Message *m) {
  const MsgInfo &mi = g_msgs[pm.d];
  const Reflection *r = m->GetReflection();
  for (size_t i = 0; i < mi.f.size(); i++) {
    const FieldInfo &f = mi.f[i];
    const PSlot &s = pm.slots[i];
    if (s.kind == 'U') {
      if (f.quant != 'C') throw CaseError("U slot for a field outside a oneof");
    } else if (s.kind == 'R') {
      if (f.label != L_REP) throw CaseError("R slot for a singular field");
      if (s.n > s.elems.size()) throw CaseError("count exceeds the array");
      for (uint64_t j = 0; j < s.n; j++) set_cell(m, f, s.elems[j], true);
    } else {
      if (f.label == L_REP || f.quant == 'C') throw CaseError("S slot for a repeated field or oneof member");
      const PCell &c = s.cell;
      bool present;
      if (f.label == L_REQ) {
        present = !(c.kind == 'G' && !c.msg) && !(c.kind == 'T' && c.ptr == 'N');
      } else if (f.implicit) {
        present = !cell_is_zero(c, f);
      } else if (f.type == T_STRING) {
        present = c.kind == 'T' && c.ptr == 'H';
      } else if (f.type == T_MESSAGE) {
        present = c.kind == 'G' && c.msg;
      } else if (f.quant == 'H') {
        present = static_cast<uint32_t>(s.has) != 0;
      } else {
        present = !cell_is_zero(c, f);
      }
      if (present) set_cell(m, f, c, false);
    }
  }
  for (unsigned g = 0; g < mi.n_oneofs; g++) {
    uint64_t cs = pm.unions[g].first;
    const PCell &c = pm.unions[g].second;
    if (cs == 0) continue;
    for (const FieldInfo &f : mi.f) {
      if (f.quant != 'C' || f.group != g || f.id != cs) continue;
      if (c.kind == 'T' && c.ptr != 'H') break;  // protobuf-c: NULL / default pointer = not emitted
      if (c.kind == 'G' && !c.msg) break;
      set_cell(m, f, c, false);
      break;
    }
  }
  gp::UnknownFieldSet *u = r->MutableUnknownFields(m);
  for (const PUnk &k : pm.unk) {
    if (k.tag == 0 || k.tag > 536870911ull) throw CaseError("unknown field number out of range");
    int num = static_cast<int>(k.tag);
    size_t pos = 0;
    uint64_t v;
    switch (k.wt) {
      case 0:
        if (!decode_varint(k.data, pos, v) || pos != k.data.size()) throw CaseError("unknown varint payload malformed");
        u->AddVarint(num, v);
        break;
      case 1:
        if (k.data.size() != 8) throw CaseError("unknown fixed64 payload malformed");
        v = 0;
        for (int b = 7; b >= 0; b--) v = v << 8 | static_cast<unsigned char>(k.data[b]);
        u->AddFixed64(num, v);
        break;
      case 5:
        if (k.data.size() != 4) throw CaseError("unknown fixed32 payload malformed");
        v = 0;
        for (int b = 3; b >= 0; b--) v = v << 8 | static_cast<unsigned char>(k.data[b]);
        u->AddFixed32(num, static_cast<uint32_t>(v));
        break;
      case 2:
        if (!decode_varint(k.data, pos, v) || v != k.data.size() - pos)
          throw CaseError("unknown length-delimited payload malformed");
        u->AddLengthDelimited(num, k.data.substr(pos));
        break;
      default:
        throw CaseError("unknown field with an unsupported wire type");
    }
  }
}

// --------------------------------------------------------------------------------------------
// cases
// --------------------------------------------------------------------------------------------

static void case_unpack(std::string &o, const std::vector<std::string> &t) {
  if (t.size() != 3) throw CaseError(t.size() < 3 ? "unexpected end of line" : "trailing tokens");
  uint64_t d = parse_u64<CaseError>(t[1], "descriptor index");
  if (d >= g_msgs.size()) throw CaseError("descriptor index out of range");
  std::string bytes = hex_decode<CaseError>(t[2]);
  std::unique_ptr<Message> m(g_factory->GetPrototype(g_msgs[d].d)->New());
  bool parsed = m->ParsePartialFromString(bytes);
  if (!parsed || !m->IsInitialized()) {
    o = "U FAIL";
    if (g_why) o += parsed ? " missing-required" : " parse-error";  // diagnostic mode only
    return;
  }
  o = "U";
  print_msg(o, *m);
}

static void case_pack(std::string &o, const std::vector<std::string> &t) {
  Toks tk{t, 1};
  if (tk.next() != "M") throw CaseError("expected M");
  std::shared_ptr<PMsg> pm = parse_msg(tk);
  if (!tk.done()) throw CaseError("trailing tokens");
  std::unique_ptr<Message> m(g_factory->GetPrototype(g_msgs[pm->d].d)->New());
  apply_msg(*pm, m.get());
  std::string out;
  {
    gp::io::StringOutputStream sos(&out);
    gp::io::CodedOutputStream cos(&sos);
    cos.SetSerializationDeterministic(true);
    m->SerializePartialToCodedStream(&cos);
  }
  o = "P";
  put_sp_u64(o, out.size());
  o.push_back(' ');
  put_hex(o, out);
}

// RAW <hex>: the records libprotobuf itself finds in the bytes, read with no schema at all (UnknownFieldSet):
//   R <num>:<wt>:<value>...   value: 16 hex digits (wt 0, 1), 8 hex digits (wt 5), the bytes in hex or - (wt 2)
//   R -   when libprotobuf rejects the bytes;  a group is printed as <num>:3:G (the model does not read groups)
static void case_raw(std::string &o, const std::vector<std::string> &t) {
  if (t.size() < 2) throw CaseError("RAW needs bytes");
  std::string data = hex_decode<CaseError>(t[1]);
  gp::UnknownFieldSet u;
  if (!u.ParseFromArray(data.data(), static_cast<int>(data.size()))) {
    o = "R -";
    return;
  }
  o = "R";
  for (int i = 0; i < u.field_count(); i++) {
    const gp::UnknownField &f = u.field(i);
    o.push_back(' ');
    put_u64(o, static_cast<uint64_t>(f.number()));
    switch (f.type()) {
      case gp::UnknownField::TYPE_VARINT: o += ":0:"; put_hex64(o, f.varint()); break;
      case gp::UnknownField::TYPE_FIXED64: o += ":1:"; put_hex64(o, f.fixed64()); break;
      case gp::UnknownField::TYPE_LENGTH_DELIMITED: o += ":2:"; put_hex(o, f.length_delimited()); break;
      case gp::UnknownField::TYPE_FIXED32: {
        o += ":5:";
        uint32_t v = f.fixed32();
        for (int k = 7; k >= 0; k--) o.push_back(kHex[(v >> (4 * k)) & 15]);
        break;
      }
      case gp::UnknownField::TYPE_GROUP: o += ":3:G"; break;
    }
  }
}

int main(int argc, char **argv) {
  const char *path = nullptr;
  for (int i = 1; i < argc; i++) {
    std::string a = argv[i];
    if (a == "--emulate-proto3") g_force_emulate = true;
    else if (a == "--lax-utf8") g_lax_utf8 = true;
    else if (a == "--why") g_why = true;
    else if (a == "-") path = nullptr;
    else if (a.rfind("--", 0) == 0) {
      fprintf(stderr, "usage: ref_driver [--emulate-proto3] [--lax-utf8] [--why] [<casefile>]\n");
      return 2;
    } else path = argv[i];
  }
  std::ifstream file;
  if (path) {
    file.open(path);
    if (!file) {
      fprintf(stderr, "ref_driver: cannot open %s\n", path);
      return 2;
    }
  }
  std::istream &in = path ? static_cast<std::istream &>(file) : std::cin;
  std::ios::sync_with_stdio(false);
  gp::SetLogHandler(nullptr);  // parse failures (invalid UTF-8, ...) are reported as U FAIL, not on stderr

  try {
    read_env(in);
    build_pool();
  } catch (const EnvError &e) {
    printf("ENVERR %s\n", e.what());
    fflush(stdout);
    return 0;
  }

  std::string line, o;
  while (std::getline(in, line)) {
    while (!line.empty() && (line.back() == '\r' || line.back() == '\n')) line.pop_back();
    if (line.empty() || line[0] == '#') continue;
    std::vector<std::string> t = split(line);
    o.clear();
    try {
      if (t[0] == "UNPACK" || t[0] == "REFPARSE") case_unpack(o, t);
      else if (t[0] == "PACK") case_pack(o, t);
      else if (t[0] == "RAW") case_raw(o, t);
      else o = "ERR unknown op";
    } catch (const CaseError &e) {
      o = std::string("ERR ") + e.what();
    }
    o.push_back('\n');
    fwrite(o.data(), 1, o.size(), stdout);
  }
  fflush(stdout);
  return 0;
}

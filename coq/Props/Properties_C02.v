(* C02 -- size, pack and pack_to_buffer agree; pack never overruns.
   Statement only; proof in Proofs/SizePack*.v by induction over the message tree. *)
From Coq Require Import ZArith List Bool.
From PBC Require Import Impl.Desc Impl.Mem Impl.Size Impl.Pack Impl.PackBuf Impl.WF
     Proofs.SizePack Proofs.SizePackFinal Proofs.Examples.
Import ListNotations.
Local Open Scope Z_scope.

(* For every descriptor environment E and every well-formed message m (any
   nesting depth, any field count, any values): all three serialisers succeed;
   get_packed_size returns exactly the number of bytes pack writes; and the
   chunks pack_to_buffer hands to append, concatenated in order, are exactly
   those bytes.  pack_msg returns the bytes written consecutively from the start
   of the caller's buffer, so "size = length written" is the no-overrun claim at
   the level of this model (the in-place memmove of length prefixes is abstracted;
   the tie checks the real buffer with canaries). *)
Theorem C02_size_pack_stream_agree : forall (E : env) (m : msg),
  wf_msg E m = true ->
  exists b, pack_msg E m = Ok b /\
            size_msg E m = Ok (Z.of_nat (length b)) /\
            exists cs, chunks_msg E m = Ok cs /\ concat cs = b.
Proof. exact size_pack_chunks_agree. Qed.
Print Assumptions C02_size_pack_stream_agree.

(* the hypothesis is satisfiable by a non-trivial message: nested, packed, oneof, unknown fields *)
Theorem C02_nonvacuous : wf_msg ex_env ex_msg = true /\ exists b, pack_msg ex_env ex_msg = Ok b /\ (length b = 56)%nat.
Proof. exact (conj ex_wf ex_pack_nonempty). Qed.
Print Assumptions C02_nonvacuous.

(* The normal form of a WELL-FORMED in-memory message: what the parser hands back for what the
   serialiser writes.  Subsumes Impl/Norm.v (capacity, explicit zero of implicit-presence fields) and adds
   the representation choices a hand-built message may contain and the wire does not carry: has flags
   other than 0/1, values behind a cleared has flag, bits above the width of a scalar, bools other than
   0/1, strings held through the NULL or the default pointer, bytes held through the default pointer,
   array slack beyond the count, a union whose case names no member or whose selected pointer is unset.
   Proofs/WNormPack.v: serialisation does not see the difference. *)
From Coq Require Import ZArith List Bool.
From PBC Require Import Base.CInt Gen.LeafC Impl.Desc Impl.Mem Impl.Enc Impl.WF Impl.Unpack Impl.Canon.
Import ListNotations.
Local Open Scope Z_scope.

Section WNorm.
Variable E : env.

Definition wn_word (t : ftype) (w : Z) : Z :=
  match t with
  | TBool => if s32 w =? 0 then 0 else 1
  | _ => if is4 t then u32 w else u64 w
  end.

(* a cell the serialiser emits *)
Definition wn_present (rec : msg -> msg) (f : field) (v : sval) : sval :=
  match f_type f with
  | TString =>
      match as_str v with
      | Ok p => match str_bytes f p with
                | Ok (Some s) => VStr (PHeap s)
                | Ok None => VStr (PHeap [])
                | Err _ => v
                end
      | Err _ => v
      end
  | TBytes =>
      match as_bytes v with
      | Ok (len, p) => match data_bytes f len p with
                       | Ok b => if len =? 0 then VBytes 0 PNull else VBytes len (PHeap b)
                       | Err _ => v
                       end
      | Err _ => v
      end
  | TMessage => match v with VMsg (Some m) => VMsg (Some (rec m)) | _ => v end
  | t => match v with VWord w => VWord (wn_word t w) | _ => v end
  end.

Definition wn_slot (rec : msg -> msg) (f : field) (s : slot) : slot :=
  match s with
  | SRep n cap arr =>
      if n =? 0 then SRep 0 0 None
      else match arr with
           | Some l => SRep n n (Some (firstn (Z.to_nat n) (map (wn_present rec f) l)))
           | None => s
           end
  | SOne h v =>
      match f_label f with
      | LRequired => SOne 0 (wn_present rec f v)
      | LOptional =>
          match f_type f with
          | TMessage | TString =>
              match ptr_absent f v with
              | Ok true => SOne 0 (init_cell f)
              | Ok false => SOne 0 (wn_present rec f v)
              | Err _ => s
              end
          | _ => if h =? 0 then SOne 0 (init_cell f) else SOne 1 (wn_present rec f v)
          end
      | LNone =>
          match zeroish f v with
          | Ok true => SOne 0 (init_cell f)
          | Ok false => SOne 0 (wn_present rec f v)
          | Err _ => s
          end
      | LRepeated => s
      end
  | SUnion g => s
  end.

Definition wn_slots (rec : msg -> msg) : list field -> list slot -> list slot :=
  fix go (fs : list field) (ss : list slot) {struct ss} : list slot :=
    match fs, ss with
    | f :: fs', s :: ss' => wn_slot rec f s :: go fs' ss'
    | _, _ => ss
    end.

(* the storage of one oneof: selected member emitted -> its normal form; nothing emitted -> the initial state *)
Definition wn_union (rec : msg -> msg) (fs : list field) (cv : Z * sval) : Z * sval :=
  match find (fun f => f_id f =? fst cv) fs with
  | Some f =>
      if f_oneof f then
        match ptr_absent f (snd cv) with
        | Ok false => (fst cv, wn_present rec f (snd cv))
        | Ok true => (0, VWord 0)
        | Err _ => cv
        end
      else cv
  | None => (0, VWord 0)
  end.

Fixpoint wnorm_msg (m : msg) : msg :=
  match m with
  | Msg d slots unions unk =>
      match nth_error E d with
      | None => m
      | Some md =>
          Msg d (wn_slots wnorm_msg (md_fields md) slots) (map (wn_union wnorm_msg (md_fields md)) unions) unk
      end
  end.

End WNorm.

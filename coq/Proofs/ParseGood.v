(* Whatever the parser accepts is well-formed, re-serialisable and stable.

   [unpack_result_good]: for every environment the generator can emit (env_ok), every byte string shorter than 2^28
   and every descriptor index in range, a message returned by the model of protobuf_c_message_unpack is
     - well-formed (Impl/WF.v wf_msg: the serialisers may be given it),
     - accepted by the model of protobuf_c_message_check (Impl/Check.v check_msg = Ok true),
     - well-typed (Impl/Typed.v typed_msg) PROVIDED every unknown field number it retained is below 2^29
       ([unk_small], defined first below).  The side condition is necessary: the key reader accepts 5-byte keys
       with field numbers up to 2^32-1 and the parser retains them as unknown fields; such numbers are not
       protobuf field numbers, cannot be written back faithfully, and typed_msg / canon_unk exclude them
       (Example [ex_big_unknown] at the end: accepted, wf, check-accepted, NOT typed).
   [accepted_input_is_stable]: hence such a message can be serialised, and parsing what the serialiser writes
   returns its normal form wnorm_msg, which serialises to the same bytes.

   Both statements are proved exactly as asked; NO hypothesis was changed.  (The bound 2^28 on the input length is
   what wf_slot's  n < 268435456  needs: an element count never exceeds the number of input bytes it was counted in.)

   Architecture (same as Proofs/ParseSafe.v + Proofs/UnpackSafe.v, which are reused, not redone):
     Part 1  what the scanner records about every member beyond ScanCount.member_ok ([member_extra]): field number in
             1 .. 2^32-1 (the key reader rejects number 0: [parse_tag_pos]), wire type below 8, the recorded field
             index IS find_field of the number (via Records.scan_one_factor), and the recorded bytes are delimited
             as their wire type says (unk_payload_ok: [varint_end_take], [scan_lpd_inv] = the converse of
             LeafDec.scan_len_spec).  [scan_loop_extra]: invariant of the scanning loop.
     Part 2  [good_msg E B]: the value-level invariant of parser results (strings are heap strings of non-zero bytes or
             the initial NULL/default pointer, bytes are (len = length, len > 0, heap) or (0, NULL) or the default,
             sub-messages are good and of the declared type, a required member is set, retained unknown members are
             wf_unk + delimited + not a declared field, every element count at every depth is at most B).  The bound
             B is part of the predicate because merge_messages ADDS the counts of the two messages it merges: the
             counts of a sub-message merged from several occurrences are bounded by the sum of the lengths of the
             payloads they were parsed from, not by any one of them.  [good_mono]: B may be raised.
     Part 3  [merge_good]: merging a B1-good and a B2-good well-shaped message of one type gives a (B1+B2)-good one
             (mirror of MergeSafe.merge_shape, which supplies totality and shape).
     Part 4  [final_P]: well-shaped (Proofs/Shape.v, already proved for every parser result) + good with B < 2^28
             implies wf_msg, check_msg = Ok true, and unk_small -> typed_msg.
     Part 5  [vinv]: the value-level companion of ParseSafe.pinv, threaded through parse_required, parse_packed,
             append_elems, parse_member ([parse_member_good]; ParseSafe.parse_member_step supplies pinv),
             parse_members, and established by alloc_slots ([alloc_vinv]: initial cells are good because field_ok
             constrains defaults).  Cells are good with bound data_total(done): the bytes of the members parsed so
             far.  [vinv_good]: at the end, with Required.v's "every required field without default was scanned".
     Part 6  the fuel induction [unpack_good], the theorem, the corollary, and two evaluated examples. *)
From Coq Require Import ZArith List Bool Lia ZifyBool.
From PBC Require Import Impl.Pack Impl.WNorm Proofs.SizePack Proofs.SizePackFinal Proofs.WNormPack Proofs.Examples.
From PBC Require Import Base.CInt Base.Bits Base.Bits2 Gen.LeafC Spec.Wire Impl.Desc Impl.Mem Impl.Enc Impl.WF Impl.Unpack
     Impl.Canon Impl.Check Impl.Typed Proofs.MsgInd
     Proofs.LeafDec Proofs.LeafSafe Proofs.ScanInv Proofs.Required Proofs.ScanRec Proofs.ScanRecs Proofs.MsgRT4 Proofs.Shape
     Proofs.ScanCount Proofs.PackedCount Proofs.TagRange Proofs.MergeSafe Proofs.Terminates Proofs.ParseSafe Proofs.UnpackSafe
     Proofs.Reorder Proofs.Records Proofs.WfCanon Proofs.CheckReqsub.
Import ListNotations.
Local Open Scope Z_scope.

Ltac Zify.zify_post_hook ::= Z.div_mod_to_equations.

Local Notation bytes := LeafSafe.bytes.

(* ================================================================== *)
(* unk_small: every unknown field retained in the message, at every depth the serialiser visits (singular cells, the
   first n elements of arrays, the selected member of a union), has a field number below 2^29 *)


(* ================================================================== *)
(* Part 1.  What the scanner records about EVERY member                *)

Lemma rd_bytes : forall d i, bytes d -> 0 <= rd d i < 256.
Proof.
  intros d i H. unfold rd. destruct (nth_in_or_default (Z.to_nat i) d 0) as [Hin|Hd]; [|rewrite Hd; lia].
  unfold bytes in H. rewrite Forall_forall in H. apply H. exact Hin.
Qed.

Lemma bytes_forallb : forall d, bytes d -> forallb byte_ok d = true.
Proof.
  intros d H. apply forallb_forall. intros b Hb. unfold bytes in H. rewrite Forall_forall in H. specialize (H b Hb).
  unfold byte_ok. lia.
Qed.

Lemma bytes_in : forall d, bytes d -> forall b, In b d -> 0 <= b < 256.
Proof. intros d H b Hb. unfold bytes in H. rewrite Forall_forall in H. exact (H b Hb). Qed.

(* ---- the field number of an accepted key is not 0 *)
Lemma tag1_sweep :
  forallb (fun b => (Z.land b 248 =? 0) || negb (Z.land b 128 =? 0) || negb (u32 (Z.shiftr (Z.land b 127) 3) =? 0))
          (zrange 256) = true.
Proof. vm_compute. reflexivity. Qed.

Lemma parse_tag_pos : forall len d t w used tag wt, 0 <= len -> bytes d ->
  parse_tag_and_wiretype len d t w = (used, tag, wt) -> used <> 0 -> tag <> 0.
Proof.
  intros len d t w used tag wt Hlen HB.
  unfold parse_tag_and_wiretype. cbv zeta.
  set (max_rv := u32 (if len >? 5 then 5 else len)).
  assert (HM : 0 <= max_rv <= 5) by (unfold max_rv, u32; destruct (len >? 5) eqn:E; lia).
  pose proof (rd_bytes d 0 HB) as Hb0.
  pose proof (sweep 256 _ tag1_sweep (rd d 0) ltac:(change (Z.of_nat 256) with 256; lia)) as Hs.
  destruct (Z.land (rd d 0) 248 =? 0) eqn:E248; [intros E; inversion E; congruence|].
  destruct (Z.land (rd d 0) 128 =? 0) eqn:E128.
  { intros E _. inversion E; subst. cbn [orb negb] in Hs. lia. }
  match goal with |- context [@while_ _ _ _ ?b ?s] => set (body := b); set (s0 := s) end.
  set (I := fun st : Z * Z * Z * Z => let '(rv, tg, shift, tout) := st in 1 <= rv).
  set (m := fun st : Z * Z * Z * Z => let '(rv, tg, shift, tout) := st in Z.to_nat (max_rv - rv)).
  assert (Hstep : forall s s', I s -> body s = Continue s' -> I s' /\ (m s' < m s)%nat).
  { intros [[[rv tg] shift] tout] s' Hrv Hb. cbv beta iota zeta delta [body] in Hb.
    destruct (Z.ltb_spec rv max_rv) as [Hlt|Hge]; [|discriminate Hb].
    destruct (negb (Z.land (rd d rv) 128 =? 0)).
    - inversion Hb; subst s'; clear Hb. cbv beta iota delta [I m] in *. rewrite (u32_id (rv + 1)) by lia. lia.
    - destruct (_ =? 0) in Hb; discriminate Hb. }
  set (Q := fun r : Z * Z * Z => fst (fst r) <> 0 -> snd (fst r) <> 0).
  assert (Hret : forall s r, I s -> body s = Return r -> Q r).
  { intros [[[rv tg] shift] tout] r Hrv Hb. cbv beta iota zeta delta [body] in Hb.
    destruct (Z.ltb_spec rv max_rv) as [Hlt|Hge]; [|discriminate Hb].
    destruct (negb (Z.land (rd d rv) 128 =? 0)); [discriminate Hb|].
    match type of Hb with (if ?c =? 0 then _ else _) = _ => destruct (Z.eqb_spec c 0) as [Hz|Hnz] end;
      inversion Hb; subst r; unfold Q; cbn [fst snd]; [congruence | intros _; exact Hnz]. }
  assert (H0 : I s0) by (subst s0; cbv beta iota delta [I]; lia).
  assert (Hm0 : (m s0 < 8)%nat) by (subst s0; cbv beta iota delta [m]; lia).
  pose proof (while_inv body I m Hstep (fun _ => True) Q (fun _ _ _ _ => Logic.I) Hret 8 s0 H0 Hm0) as W.
  destruct (while_ 8 body s0) as [[[[? ?] ?] ?]|r|]; [| |contradiction].
  - intros E; inversion E; congruence.
  - intros E Hu; subst r. unfold Q in W. cbn [fst snd] in W. exact (W Hu).
Qed.

(* ---- a delimited varint payload is what take_varint reads *)
Lemma varint_end_take : forall l max i, bytes l -> varint_end l max = Some i ->
  take_varint max (firstn (Z.to_nat (i + 1)) l) = Some (firstn (Z.to_nat (i + 1)) l, []).
Proof.
  induction l as [|b t IH]; intros max i HB H; destruct max as [|k]; cbn [varint_end] in H; try discriminate H.
  assert (Hb : 0 <= b < 256) by (apply (bytes_in _ HB); left; reflexivity).
  assert (HBt : bytes t) by (unfold bytes in *; inversion HB; assumption).
  rewrite land128_zero in H by exact Hb.
  destruct (Z.ltb_spec b 128) as [Hs|Hl].
  - inversion H; subst i. change (Z.to_nat (0 + 1)) with 1%nat. cbn [firstn take_varint].
    replace (b <? 128) with true by lia. reflexivity.
  - destruct (varint_end t k) as [j|] eqn:Ej; [|discriminate H]. inversion H; subst i.
    pose proof (varint_end_bound _ _ _ Ej) as Hj.
    replace (Z.to_nat (j + 1 + 1)) with (S (Z.to_nat (j + 1))) by lia. cbn [firstn take_varint].
    replace (b <? 128) with false by lia. rewrite (IH k j HBt Ej). reflexivity.
Qed.

(* ---- a delimited length-prefixed payload is prefix ++ body with the prefix saying how long the body is *)
Lemma wfv_prefix : forall (n : nat) d, bytes d -> (n < length d)%nat ->
  (forall j, (j < n)%nat -> (Z.land (nth j d 0) 128 =? 0) = false) -> (Z.land (nth n d 0) 128 =? 0) = true ->
  wfv (firstn (S n) d).
Proof.
  induction n as [|n IH]; intros d HB Hn Hlt Hat; destruct d as [|b t]; cbn [length] in Hn; try lia.
  - cbn [firstn wfv nth] in *. assert (Hb : 0 <= b < 256) by (apply (bytes_in _ HB); left; reflexivity).
    rewrite land128_zero in Hat by exact Hb. lia.
  - assert (Hb : 0 <= b < 256) by (apply (bytes_in _ HB); left; reflexivity).
    assert (HBt : bytes t) by (unfold bytes in *; inversion HB; assumption).
    pose proof (Hlt 0%nat ltac:(lia)) as H0. cbn [nth] in H0. rewrite land128_zero in H0 by exact Hb.
    specialize (IH t HBt ltac:(lia) (fun j Hj => Hlt (S j) ltac:(lia)) Hat).
    change (firstn (S (S n)) (b :: t)) with (b :: firstn (S n) t). cbn [wfv].
    destruct (firstn (S n) t) as [|x r] eqn:Ef; [contradiction|]. split; [lia | exact IH].
Qed.

Lemma varint_val_nonneg : forall l, 0 <= varint_val l.
Proof. induction l as [|b t IH]; cbn [varint_val]; lia. Qed.

Lemma scan_lpd_inv : forall len d p l pref, 0 <= len -> len <= LeafSafe.zlen d -> bytes d -> len < 4294967296 ->
  scan_length_prefixed_data len d p = (l, pref) -> l <> 0 ->
  exists lp rest, d = lp ++ rest /\ wfv lp /\ (length lp <= 5)%nat /\ pref = Mem.zlen lp /\
    l = Mem.zlen lp + varint_val lp /\ varint_val lp <= 2147483647 /\ l <= len.
Proof.
  intros len d p l pref Hlen0 Hld HB H32 H Hl.
  (* first: some byte among the first min(len,5) has no continuation bit *)
  assert (Hex : exists i : nat, Z.of_nat i < Z.min len 5 /\
            (forall j, (j < i)%nat -> (Z.land (nth j d 0) 128 =? 0) = false) /\ (Z.land (nth i d 0) 128 =? 0) = true).
  { revert H. unfold scan_length_prefixed_data. cbv zeta.
    set (hdr_max := u32 (if len <? 5 then len else 5)).
    assert (HM : hdr_max = Z.min len 5) by (unfold hdr_max; destruct (Z.ltb_spec len 5); rewrite u32_small; lia).
    match goal with |- context [@while_ _ _ _ ?b ?s] => set (body := b); set (s0 := s) end.
    set (I := fun st : Z * Z * Z => let '(i, val, shift) := st in
                0 <= i <= hdr_max /\ forall j, (Z.of_nat j < i) -> (Z.land (nth j d 0) 128 =? 0) = false).
    set (m := fun st : Z * Z * Z => let '(i, val, shift) := st in Z.to_nat (hdr_max - i)).
    assert (Hstep : forall s s', I s -> body s = Continue s' -> I s' /\ (m s' < m s)%nat).
    { intros [[i val] shift] s' (Hi & Hj) Hb. cbv beta iota zeta delta [body] in Hb.
      destruct (Z.ltb_spec i hdr_max) as [Hlt|Hge]; [|discriminate Hb].
      destruct (Z.land (rd d i) 128 =? 0) eqn:E; [discriminate Hb|].
      inversion Hb; subst s'; clear Hb. cbv beta iota delta [I m]. rewrite (u32_id (i + 1)) by lia.
      split; [|lia]. split; [lia|]. intros j Hji. destruct (Z.eq_dec (Z.of_nat j) i) as [Heq|Hne]; [|apply Hj; lia].
      unfold rd in E. subst i. rewrite Nat2Z.id in E. exact E. }
    set (P := fun st : Z * Z * Z => let '(i, val, shift) := st in
                i = hdr_max \/ (0 <= i < hdr_max /\ (forall j, (Z.of_nat j < i) -> (Z.land (nth j d 0) 128 =? 0) = false) /\
                                (Z.land (rd d i) 128 =? 0) = true)).
    assert (Hbreak : forall s s', I s -> body s = Break s' -> P s').
    { intros [[i val] shift] s' (Hi & Hj) Hb. cbv beta iota zeta delta [body] in Hb.
      destruct (Z.ltb_spec i hdr_max) as [Hlt|Hge].
      - destruct (Z.land (rd d i) 128 =? 0) eqn:E; [|discriminate Hb].
        inversion Hb; subst s'; clear Hb. cbv beta iota delta [P]. right. split; [lia|]. split; [exact Hj | exact E].
      - inversion Hb; subst s'; clear Hb. cbv beta iota delta [P]. left. lia. }
    assert (Hret : forall s (r : Z * Z), I s -> body s = Return r -> False).
    { intros [[i val] shift] r _ Hb. cbv beta iota zeta delta [body] in Hb.
      destruct (i <? hdr_max); [|discriminate Hb]. destruct (Z.land (rd d i) 128 =? 0); discriminate Hb. }
    assert (H0 : I s0) by (subst s0; cbv beta iota delta [I]; split; [lia | intros j Hj0; lia]).
    assert (Hm0 : (m s0 < 8)%nat) by (subst s0; cbv beta iota delta [m]; lia).
    pose proof (while_inv body I m Hstep P (fun _ => False) Hbreak Hret 8 s0 H0 Hm0) as W.
    destruct (while_ 8 body s0) as [[[i val] shift]|r|]; [|contradiction|contradiction].
    cbv beta iota delta [P] in W.
    destruct (Z.eqb_spec i hdr_max) as [Heq|Hne]; [intros E; inversion E; congruence|]. intros _.
    destruct W as [W|(Hi & Hj & Hat)]; [contradiction|].
    exists (Z.to_nat i). split; [lia|]. split; [intros j Hji; apply Hj; lia | exact Hat]. }
  destruct Hex as (i & Hi & Hj & Hat).
  assert (Hilen : (i < length d)%nat) by (unfold LeafSafe.zlen in Hld; lia).
  pose proof (wfv_prefix i d HB Hilen Hj Hat) as W.
  set (lp := firstn (S i) d) in *. set (rest := skipn (S i) d).
  assert (Hd : d = lp ++ rest) by (symmetry; apply firstn_skipn).
  assert (Hlpl : length lp = S i) by (unfold lp; rewrite firstn_length; lia).
  assert (HBlp : forall b, In b lp -> 0 <= b < 256).
  { intros b Hb. apply (bytes_in _ HB). unfold lp in Hb. eapply in_firstn'; exact Hb. }
  clearbody lp rest. clear Hj Hat Hilen.
  rewrite Hd in H.
  rewrite (scan_len_spec lp rest len p W ltac:(lia) HBlp ltac:(lia)) in H.
  unfold scan_len_result in H. pose proof (varint_val_nonneg lp) as Hv0.
  destruct (Z.gtb_spec (varint_val lp) 2147483647) as [Hbig|Hsmall]; [inversion H; congruence|].
  rewrite (u64_small (Z.of_nat (length lp) + varint_val lp)) in H by lia.
  destruct (Z.gtb_spec (Z.of_nat (length lp) + varint_val lp) len) as [Hover|Hfit]; inversion H as [[Hl1 Hp1]]; [congruence|].
  exists lp, rest. unfold Mem.zlen. repeat split; try assumption; lia.
Qed.

(* ---- the facts about a recorded member that [member_ok] does not state *)
Definition member_extra (md : mdesc) (sm : smember) : Prop :=
  0 < sm_tag sm < 4294967296 /\ 0 <= sm_wt sm < 8 /\
  sm_field sm = find_field md (sm_tag sm) /\
  unk_payload_ok (sm_wt sm) (sm_data sm) = true.

Lemma firstn_app_exact' : forall (a b : list Z) n, n = length a -> firstn n (a ++ b) = a.
Proof. intros a b n ->. apply firstn_app_exact. Qed.

Lemma scan_pure_extra : forall md a sm rest, bytes a -> a <> [] -> Mem.zlen a < 4294967296 ->
  scan_pure md a = Ok (sm, rest) -> member_extra md sm.
Proof.
  intros md a sm rest HB Hne H32. unfold scan_pure. cbv zeta.
  assert (Hlen : 1 <= Mem.zlen a <= LeafSafe.zlen a).
  { unfold Mem.zlen, LeafSafe.zlen. destruct a; [congruence | cbn [length]; lia]. }
  destruct (parse_tag_and_wiretype (Mem.zlen a) a 0 0) as [[used tag] wt] eqn:Ep.
  destruct (parse_tag_and_wiretype_used _ _ Hlen _ _ _ _ _ Ep) as [Hu Hul].
  destruct (Z.eqb_spec used 0) as [->|Hnz]; [intros H; discriminate H|].
  destruct (parse_tag_range_bytes _ _ _ _ _ _ _ Hlen HB Ep Hnz) as [Htag Hwt].
  pose proof (parse_tag_pos (Mem.zlen a) a 0 0 used tag wt ltac:(lia) HB Ep Hnz) as Htnz.
  set (at1 := skipn (Z.to_nat used) a).
  assert (Hat1 : Mem.zlen at1 = Mem.zlen a - used).
  { unfold at1, Mem.zlen. rewrite skipn_length. unfold Mem.zlen in *. lia. }
  assert (HB1 : bytes at1) by (apply bytes_skipn; exact HB).
  destruct (match find_field md tag with
            | Some i => match nth_error (md_fields md) i with Some f => Ok (Some f) | None => Err EOob end
            | None => Ok None
            end) as [fo|e]; cbn [bind]; [|intros H; discriminate H].
  match goal with |- bind ?X _ = _ -> _ => destruct X as [[len pref]|e] eqn:Elp end; cbn [bind]; [|intros H; discriminate H].
  match goal with |- bind ?X _ = _ -> _ => destruct X as [u|e] end; cbn [bind]; [|intros H; discriminate H].
  intros H. inversion H; subst sm rest; clear H.
  unfold member_extra. cbn [sm_tag sm_wt sm_field sm_data].
  split; [lia|]. split; [exact Hwt|]. split; [reflexivity|].
  unfold unk_payload_ok. rewrite (bytes_forallb _ (bytes_firstn _ _ HB1)). cbn [andb].
  change WT_VARINT with 0 in Elp. change WT_64BIT with 1 in Elp. change WT_LEN with 2 in Elp. change WT_32BIT with 5 in Elp.
  destruct (Z.eqb_spec wt 0) as [->|N0].
  { destruct (varint_end at1 10) as [i|] eqn:Ev; [|discriminate Elp]. inversion Elp; subst len pref.
    rewrite (varint_end_take at1 10 i HB1 Ev). reflexivity. }
  destruct (Z.eqb_spec wt 1) as [->|N1].
  { destruct (Z.ltb_spec (Mem.zlen a - used) 8) as [Hs|Hs]; [discriminate Elp|]. inversion Elp; subst len pref.
    unfold Mem.zlen in *. rewrite firstn_length. lia. }
  destruct (Z.eqb_spec wt 2) as [->|N2].
  { replace (2 =? 5) with false by reflexivity.
    destruct (scan_length_prefixed_data (Mem.zlen a - used) at1 0) as [l p] eqn:Es.
    destruct (Z.eqb_spec l 0) as [Hz|Hlnz]; [discriminate Elp|]. inversion Elp; subst l p.
    destruct (scan_lpd_inv (Mem.zlen a - used) at1 0 len pref ltac:(lia) ltac:(unfold LeafSafe.zlen, Mem.zlen in *; lia) HB1 ltac:(lia) Es Hlnz)
      as (lp & rest' & Hd & W & L & Hpref & Hl & Hv & Hfit).
    pose proof (varint_val_nonneg lp) as Hv0.
    assert (Hrl : varint_val lp <= Mem.zlen rest').
    { rewrite <- Hat1 in Hfit. rewrite Hd in Hfit. unfold Mem.zlen in *. rewrite app_length in Hfit. lia. }
    assert (Hfn : firstn (Z.to_nat len) at1 = lp ++ firstn (Z.to_nat (varint_val lp)) rest').
    { rewrite Hd. rewrite firstn_app. rewrite firstn_all2 by (unfold Mem.zlen in *; lia). f_equal. f_equal. unfold Mem.zlen in *. lia. }
    rewrite Hfn.
    assert (HBlp : bytes lp).
    { unfold bytes in *. rewrite Hd in HB1. apply Forall_app in HB1. exact (proj1 HB1). }
    assert (Htk : forall k p r, wfv p -> bytes p -> (length p <= k)%nat -> take_varint k (p ++ r) = Some (p, r)).
    { clear. induction k as [|k IH]; intros p r W HBp L; destruct p as [|b t]; cbn [length] in L; try contradiction; try lia.
      assert (Hb : 0 <= b < 256) by (apply (bytes_in _ HBp); left; reflexivity).
      cbn [app take_varint]. destruct t as [|b1 t'].
      - cbn [wfv] in W. replace (b <? 128) with true by lia. reflexivity.
      - cbn [wfv] in W. destruct W as [W0 W]. replace (b <? 128) with false by lia.
        assert (HBt : bytes (b1 :: t')) by (unfold bytes in *; inversion HBp; assumption).
        change (b1 :: t' ++ r) with ((b1 :: t') ++ r). rewrite (IH (b1 :: t') r W HBt ltac:(cbn [length] in *; lia)). reflexivity. }
    rewrite (Htk 5%nat lp _ W HBlp L).
    assert (Hbl : Mem.zlen (firstn (Z.to_nat (varint_val lp)) rest') = varint_val lp).
    { unfold Mem.zlen in *. rewrite firstn_length. lia. }
    unfold Mem.zlen in *. rewrite Hbl. rewrite Z.eqb_refl. cbn [andb]. lia. }
  destruct (Z.eqb_spec wt 5) as [->|N5]; [|discriminate Elp].
  destruct (Z.ltb_spec (Mem.zlen a - used) 4) as [Hs|Hs]; [discriminate Elp|]. inversion Elp; subst len pref.
  unfold Mem.zlen in *. rewrite firstn_length. lia.
Qed.

(* ---- along the scanning loop *)
Lemma data_total_nonneg : forall ms, 0 <= data_total ms.
Proof. induction ms as [|x t IH]; cbn [data_total]; [lia|]. unfold Mem.zlen. lia. Qed.

Lemma apply_member_members : forall md st sm rest st', apply_member md st sm rest = Ok st' ->
  st_members st' = sm :: st_members st.
Proof.
  intros md st sm rest st' H. unfold apply_member in H. destruct (sm_field sm) as [i|].
  - destruct (nth_error (md_fields md) i) as [f|]; [|discriminate H].
    match type of H with bind ?X _ = _ => destruct X as [slots|e] end; cbn [bind] in H; [|discriminate H].
    inversion H; subst st'. reflexivity.
  - inversion H; subst st'. reflexivity.
Qed.

Lemma scan_loop_extra : forall (E : env) md N, desc_ok (length E) md = true -> N < 4294967296 ->
  forall fuel st st', scan_loop fuel md st = Ok st' -> scan_inv md N st ->
  Forall (member_extra md) (st_members st) -> Forall (member_extra md) (st_members st').
Proof.
  intros E md N D HN. induction fuel as [|k IH]; intros st st' H I HF; cbn [scan_loop] in H.
  - destruct (st_at st); [inversion H; subst; exact HF | discriminate H].
  - destruct (st_at st) as [|b t] eqn:Ea; [inversion H; subst; exact HF|].
    destruct (scan_one md st) as [st1|e] eqn:E1; cbn [bind] in H; [|discriminate H].
    assert (Hne : st_at st <> []) by congruence.
    pose proof I as (HB & HL & HM & HD & HS).
    pose proof (scan_one_inv' E md D parse_tag_range_bytes count_packed_elements_le_len N st st1 HN E1 Hne I) as I1.
    destruct (scan_one_factor_F1 E md st st1 D HL Hne HB E1) as (sm & Hp & Ha).
    apply (IH st1 st' H I1). rewrite (apply_member_members _ _ _ _ _ Ha). constructor; [|exact HF].
    apply (scan_pure_extra md (st_at st) sm (st_at st1) HB Hne); [|exact Hp].
    pose proof (data_total_nonneg (st_members st)). lia.
Qed.

(* ================================================================== *)
(* Part 2.  The value-level invariant of parser results                *)

(* a required member holds a value (not the NULL it starts with) *)
Definition req_set (f : field) (v : sval) : bool :=
  match f_type f with
  | TString => match v with VStr PNull => false | _ => true end
  | TMessage => match v with VMsg (Some _) => true | _ => false end
  | _ => true
  end.

(* a cell as the parser leaves it: the initial value, or a parsed value *)
Definition gcell (rec : msg -> bool) (f : field) (in_array : bool) (v : sval) : bool :=
  match f_type f with
  | TString =>
      match v with
      | VStr (PHeap s) => forallb char_ok s
      | VStr PDef => negb in_array && match f_default f with Some (DStr _) => true | _ => false end
      | VStr PNull => negb in_array && match f_default f with None => true | Some _ => false end
      | _ => false
      end
  | TBytes =>
      match v with
      | VBytes len (PHeap s) => (0 <? len) && (len =? Mem.zlen s) && forallb byte_ok s
      | VBytes len PNull => len =? 0
      | VBytes len PDef =>
          negb in_array && match f_default f with Some (DBytes b) => len =? Mem.zlen b | _ => false end
      | _ => false
      end
  | TMessage =>
      match v with
      | VMsg (Some m) => rec m && Nat.eqb (m_desc m) (f_sub f)
      | VMsg None => negb in_array
      | _ => false
      end
  | _ => match v with VWord _ => true | _ => false end
  end.

Definition gunion (rec : msg -> bool) (fs : list field) (g : nat) (cv : Z * sval) : bool :=
  ((fst cv =? 0) && match snd cv with VWord 0 => true | _ => false end) ||
  existsb (fun f => (f_id f =? fst cv) && match f_quant f with QCase g' => Nat.eqb g g' | _ => false end &&
                    f_oneof f && gcell rec f false (snd cv)) fs.

Definition gunions (rec : msg -> bool) (fs : list field) : nat -> list (Z * sval) -> bool :=
  fix go (g : nat) (us : list (Z * sval)) {struct us} : bool :=
    match us with
    | [] => true
    | cv :: t => gunion rec fs g cv && go (S g) t
    end.

(* a retained unknown member: in range, delimited as its wire type says, and not a declared field *)
Definition gunk (md : mdesc) (u : ufield) : bool :=
  wf_unk u && unk_payload_ok (u_wt u) (u_data u) &&
  match find_field md (u_tag u) with None => true | Some _ => false end.

Section Good.
Variable E : env.
Variable B : Z.     (* bound on every element count, at every depth *)

Definition gslot (rec : msg -> bool) (f : field) (s : slot) : bool :=
  match s with
  | SOne h v => gcell rec f false v && (if label_eqb (f_label f) LRequired then req_set f v else true)
  | SRep n cap arr => (n <=? B) && match arr with None => true | Some l => forallb (gcell rec f true) l end
  | SUnion g => true
  end.

Fixpoint good_msg (m : msg) : bool :=
  match m with
  | Msg d slots unions unk =>
      match nth_error E d with
      | None => false
      | Some md =>
          all2 (gslot good_msg) (md_fields md) slots &&
          gunions good_msg (md_fields md) 0 unions &&
          forallb (gunk md) unk
      end
  end.
End Good.

(* ---- changing the recursive predicate *)
Definition sub_impl (r r' : msg -> bool) (v : sval) : Prop :=
  forall sub, v = VMsg (Some sub) -> r sub = true -> r' sub = true.

Lemma gcell_impl : forall r r' f ia v, sub_impl r r' v -> gcell r f ia v = true -> gcell r' f ia v = true.
Proof.
  intros r r' f ia v HI H. unfold gcell in *. destruct (f_type f); try exact H.
  destruct v as [| | |[m|]]; try exact H. apply andb_true_iff in H. destruct H as [H1 H2].
  rewrite (HI m eq_refl H1), H2. reflexivity.
Qed.

Lemma gcells_impl : forall r r' f ia l, Forall (sub_impl r r') l ->
  forallb (gcell r f ia) l = true -> forallb (gcell r' f ia) l = true.
Proof.
  intros r r' f ia l HF. induction HF as [|v l Hv HF IH]; intros H; [reflexivity|].
  cbn [forallb] in *. apply andb_true_iff in H. destruct H as [H1 H2].
  rewrite (gcell_impl r r' f ia v Hv H1), (IH H2). reflexivity.
Qed.

Lemma gslot_impl : forall B B' r r' f s, B <= B' -> slot_all (sub_impl r r') s ->
  gslot B r f s = true -> gslot B' r' f s = true.
Proof.
  intros B B' r r' f s HB HS H. destruct s as [h v|n c [l|]|g]; cbn [gslot slot_all] in *.
  - apply andb_true_iff in H. destruct H as [H1 H2]. rewrite (gcell_impl r r' f false v HS H1), H2. reflexivity.
  - apply andb_true_iff in H. destruct H as [H1 H2]. rewrite (gcells_impl r r' f true l HS H2).
    replace (n <=? B') with true by lia. reflexivity.
  - rewrite andb_true_r in *. lia.
  - reflexivity.
Qed.

Lemma gslots_impl : forall B B' r r' fs ss, B <= B' -> Forall (slot_all (sub_impl r r')) ss ->
  all2 (gslot B r) fs ss = true -> all2 (gslot B' r') fs ss = true.
Proof.
  intros B B' r r' fs ss HB HF. revert fs. induction HF as [|s ss Hs HF IH]; intros fs H; [destruct fs; reflexivity|].
  destruct fs as [|f fs]; [reflexivity|]. rewrite all2_cons in *. apply andb_true_iff in H. destruct H as [H1 H2].
  rewrite (gslot_impl B B' r r' f s HB Hs H1), (IH fs H2). reflexivity.
Qed.

Lemma gunion_impl : forall r r' fs g cv, sub_impl r r' (snd cv) -> gunion r fs g cv = true -> gunion r' fs g cv = true.
Proof.
  intros r r' fs g cv HI H. unfold gunion in *. apply orb_true_iff in H. apply orb_true_iff. destruct H as [H|H]; [left; exact H|right].
  apply existsb_exists in H. destruct H as (f & Hin & H). apply existsb_exists. exists f. split; [exact Hin|].
  rewrite !andb_true_iff in *. destruct H as [[[H1 H2] H3] H4]. repeat split; try assumption.
  exact (gcell_impl r r' f false _ HI H4).
Qed.

Lemma gunions_impl : forall r r' fs us g, Forall (fun cv : Z * sval => sub_impl r r' (snd cv)) us ->
  gunions r fs g us = true -> gunions r' fs g us = true.
Proof.
  intros r r' fs us g HF. revert g. induction HF as [|cv us Hc HF IH]; intros g H; [reflexivity|].
  cbn [gunions] in *. fold (gunions r fs) in H. fold (gunions r' fs). apply andb_true_iff in H. destruct H as [H1 H2].
  rewrite (gunion_impl r r' fs g cv Hc H1), (IH (S g) H2). reflexivity.
Qed.

(* ---- unions, pointwise *)
Lemma gunions_nth : forall r fs us g0 g cv, gunions r fs g0 us = true -> nth_error us g = Some cv ->
  gunion r fs (g0 + g) cv = true.
Proof.
  intros r fs. induction us as [|x t IH]; intros g0 g cv H Hn; [destruct g; discriminate Hn|].
  cbn [gunions] in H. fold (gunions r fs) in H. apply andb_true_iff in H. destruct H as [Hx Ht].
  destruct g as [|g]; cbn [nth_error] in Hn.
  - inversion Hn; subst. replace (g0 + 0)%nat with g0 by lia. exact Hx.
  - replace (g0 + S g)%nat with (S g0 + g)%nat by lia. exact (IH (S g0) g cv Ht Hn).
Qed.

Lemma gunions_pointwise : forall r fs us g0,
  (forall g cv, nth_error us g = Some cv -> gunion r fs (g0 + g) cv = true) -> gunions r fs g0 us = true.
Proof.
  intros r fs. induction us as [|x t IH]; intros g0 H; [reflexivity|].
  cbn [gunions]. fold (gunions r fs). rewrite <- (H 0%nat x eq_refl) at 1. replace (g0 + 0)%nat with g0 by lia.
  pose proof (H 0%nat x eq_refl) as H0. replace (g0 + 0)%nat with g0 in H0 by lia. rewrite H0. cbn [andb].
  apply IH. intros g cv Hg. replace (S g0 + g)%nat with (g0 + S g)%nat by lia. exact (H (S g) cv Hg).
Qed.

Lemma all2_pointwise : forall A B (p : A -> B -> bool) fs ss,
  (forall i f s, nth_error fs i = Some f -> nth_error ss i = Some s -> p f s = true) -> all2 p fs ss = true.
Proof.
  intros A B p. induction fs as [|f fs IH]; intros ss H; [destruct ss; reflexivity|].
  destruct ss as [|s ss]; [reflexivity|]. rewrite all2_cons. rewrite (H 0%nat f s eq_refl eq_refl). cbn [andb].
  apply IH. intros i g x Hg Hx. exact (H (S i) g x Hg Hx).
Qed.

Lemma gunion_inv : forall r fs g c v, gunion r fs g (c, v) = true ->
  (c = 0 /\ v = VWord 0) \/
  exists f, In f fs /\ f_id f = c /\ f_quant f = QCase g /\ f_oneof f = true /\ gcell r f false v = true.
Proof.
  intros r fs g c v H. unfold gunion in H. cbn [fst snd] in H. apply orb_true_iff in H. destruct H as [H|H].
  - left. apply andb_true_iff in H. destruct H as [H1 H2]. split; [lia|].
    destruct v as [w| | |]; try discriminate H2. destruct w; try discriminate H2. reflexivity.
  - right. apply existsb_exists in H. destruct H as (f & Hin & H). exists f.
    rewrite !andb_true_iff in H. destruct H as [[[H1 H2] H3] H4].
    split; [exact Hin|]. split; [lia|]. split; [|split; assumption].
    destruct (f_quant f) as [| |g'|]; try discriminate H2. apply Nat.eqb_eq in H2. subst. reflexivity.
Qed.

Lemma gunion_member : forall r fs g f v, In f fs -> f_quant f = QCase g -> f_oneof f = true ->
  gcell r f false v = true -> gunion r fs g (f_id f, v) = true.
Proof.
  intros r fs g f v Hin Hq Ho Hc. unfold gunion. cbn [fst snd]. apply orb_true_iff. right.
  apply existsb_exists. exists f. split; [exact Hin|]. rewrite Hq, Ho, Hc, Z.eqb_refl, Nat.eqb_refl. reflexivity.
Qed.

(* ---- the bound may be raised *)
Lemma good_mono : forall E B B' m, B <= B' -> good_msg E B m = true -> good_msg E B' m = true.
Proof.
  intros E B B' m HB. revert m.
  apply (msg_ind2 (fun m => good_msg E B m = true -> good_msg E B' m = true) (sub_impl (good_msg E B) (good_msg E B')));
    unfold sub_impl; try (intros; discriminate).
  - intros m IH sub Hv. inversion Hv; subst. exact IH.
  - intros d slots unions unk HS HU H. cbn [good_msg] in *. destruct (nth_error E d) as [md|]; [|discriminate H].
    rewrite !andb_true_iff in *. destruct H as [[H1 H2] H3]. split; [split|]; [| |exact H3].
    + exact (gslots_impl B B' _ _ _ _ HB HS H1).
    + exact (gunions_impl _ _ _ _ _ HU H2).
Qed.

Lemma sub_impl_mono : forall E B B' v, B <= B' -> sub_impl (good_msg E B) (good_msg E B') v.
Proof. intros E B B' v HB sub _. apply good_mono. exact HB. Qed.

Lemma gcell_mono : forall E B B' f ia v, B <= B' -> gcell (good_msg E B) f ia v = true -> gcell (good_msg E B') f ia v = true.
Proof. intros E B B' f ia v HB. apply gcell_impl. apply sub_impl_mono. exact HB. Qed.

Lemma gcells_mono : forall E B B' f ia l, B <= B' ->
  forallb (gcell (good_msg E B) f ia) l = true -> forallb (gcell (good_msg E B') f ia) l = true.
Proof.
  intros E B B' f ia l HB. apply gcells_impl. apply Forall_forall. intros v _. apply sub_impl_mono. exact HB.
Qed.

Lemma slot_all_triv : forall (Q : sval -> Prop) s, (forall v, Q v) -> slot_all Q s.
Proof. intros Q s H. destruct s as [h v|n c [l|]|g]; cbn [slot_all]; auto. apply Forall_forall. intros v _. apply H. Qed.

Lemma gslot_mono : forall E B B' f s, B <= B' -> gslot B (good_msg E B) f s = true -> gslot B' (good_msg E B') f s = true.
Proof.
  intros E B B' f s HB. apply gslot_impl; [exact HB|]. apply slot_all_triv. intros v. apply sub_impl_mono. exact HB.
Qed.

Lemma gunion_mono : forall E B B' fs g cv, B <= B' -> gunion (good_msg E B) fs g cv = true -> gunion (good_msg E B') fs g cv = true.
Proof. intros E B B' fs g cv HB. apply gunion_impl. apply sub_impl_mono. exact HB. Qed.

(* ---- a cell fit for an array is fit for a singular member, and is set *)
Lemma gcell_arr : forall r f v, gcell r f true v = true -> gcell r f false v = true.
Proof.
  intros r f v H. unfold gcell in *. destruct (f_type f); try exact H.
  - destruct v as [|[| |s]| |]; try exact H; discriminate H.
  - destruct v as [| |len [| |s]|]; try exact H; discriminate H.
  - destruct v as [| | |[m|]]; try exact H; discriminate H.
Qed.

Lemma gcell_arr_set : forall r f v, gcell r f true v = true -> req_set f v = true.
Proof.
  intros r f v H. unfold gcell, req_set in *. destruct (f_type f); try reflexivity.
  - destruct v as [|[| |s]| |]; try reflexivity; discriminate H.
  - destruct v as [| | |[m|]]; try reflexivity; discriminate H.
Qed.

(* ================================================================== *)
(* Part 3.  Merging two good messages gives a good message             *)

Lemma merge_desc : forall E e l m, merge_messages E e l = Ok m -> m_desc m = m_desc l.
Proof.
  intros E e [d ls lu lk] m H. cbn [merge_messages] in H. destruct (nth_error E d) as [md|]; [|discriminate H].
  match type of H with bind ?X _ = _ => destruct X as [ss|e1]; cbn [bind] in H; [|discriminate H] end.
  match type of H with bind ?X _ = _ => destruct X as [us|e1]; cbn [bind] in H; [|discriminate H] end.
  inversion H. reflexivity.
Qed.

Section MergeGood.
Variable E : env.
Hypothesis EO : env_ok E = true.
Variables B1 B2 : Z.
Hypothesis HB1 : 0 <= B1.
Hypothesis HB2 : 0 <= B2.
Notation shp := (shape_msg E).
Notation g1 := (good_msg E B1).
Notation g2 := (good_msg E B2).
Notation g12 := (good_msg E (B1 + B2)).
Notation mrg := (merge_messages E).

Definition mgood (lm : msg) : Prop :=
  forall em m, shp em = true -> shp lm = true -> m_desc em = m_desc lm ->
    g1 em = true -> g2 lm = true -> mrg em lm = Ok m -> g12 m = true.
Definition mgoodv (v : sval) : Prop := forall lm, v = VMsg (Some lm) -> mgood lm.

Lemma merge_slot_good : forall nu f es ls s,
  slot_shape shp nu f es = true -> slot_shape shp nu f ls = true -> slot_all mgoodv ls ->
  gslot B1 g1 f es = true -> gslot B2 g2 f ls = true ->
  merge_slot mrg f es ls = Ok s -> gslot (B1 + B2) g12 f s = true.
Proof.
  intros nu f es ls s Se Sl HQ Ge Gl H.
  pose proof (gslot_mono E B1 (B1 + B2) f es ltac:(lia) Ge) as KeepE.
  pose proof (gslot_mono E B2 (B1 + B2) f ls ltac:(lia) Gl) as KeepL.
  unfold merge_slot in H.
  destruct (f_label f) eqn:EL.
  - (* required: a sub-message is merged (both are set), anything else keeps the latter *)
    destruct (f_type f) eqn:ET; try (inversion H; subst s; exact KeepL).
    destruct es as [eh ev|ne ce ae|ge]; destruct ls as [lh lv|nl cl al|gl]; try discriminate H.
    cbn [slot_all] in HQ.
    cbn [slot_shape] in Se, Sl. rewrite !andb_true_iff in Se, Sl. destruct Se as [_ Ce]. destruct Sl as [_ Cl].
    unfold cell_shape in Ce, Cl. rewrite ET in Ce, Cl.
    cbn [gslot] in Ge, Gl. rewrite EL in Ge, Gl. cbn [label_eqb] in Ge, Gl.
    apply andb_true_iff in Ge, Gl. destruct Ge as [Ge Re], Gl as [Gl Rl].
    unfold req_set in Re, Rl. rewrite ET in Re, Rl.
    destruct ev as [| | |[em|]]; try discriminate Re; destruct lv as [| | |[lm|]]; try discriminate Rl.
    destruct (mrg em lm) as [m|e1] eqn:Em; cbn [bind] in H; [|discriminate H]. inversion H; subst s.
    cbn [gslot]. rewrite EL. cbn [label_eqb]. unfold req_set. rewrite ET. rewrite andb_true_r.
    apply andb_true_iff in Ce, Cl. destruct Ce as [Se De], Cl as [Sl Dl]. apply Nat.eqb_eq in De, Dl.
    unfold gcell in Ge, Gl |- *. rewrite ET in Ge, Gl |- *. apply andb_true_iff in Ge, Gl.
    rewrite (HQ lm eq_refl em m Se Sl ltac:(congruence) (proj1 Ge) (proj1 Gl) Em). cbn [andb].
    apply Nat.eqb_eq. rewrite (merge_desc E em lm m Em). exact Dl.
  - (* optional *)
    destruct es as [eh ev|ne ce ae|ge]; destruct ls as [lh lv|nl cl al|gl]; try discriminate H;
      [|inversion H; subst s; exact KeepL].
    cbn [gslot] in KeepE, KeepL |- *. rewrite EL in KeepE, KeepL. cbn [label_eqb] in KeepE, KeepL. rewrite andb_true_r in KeepE, KeepL.
    assert (Fin : forall h v, gcell g12 f false v = true -> gslot (B1 + B2) g12 f (SOne h v) = true).
    { intros h v Hv. cbn [gslot]. rewrite EL, Hv. reflexivity. }
    cbn [slot_all] in HQ.
    destruct (f_type f) eqn:ET;
      try (repeat match type of H with
                  | bind ?X _ = _ => destruct X; cbn [bind] in H; [|discriminate H]
                  | (if ?c then _ else _) = _ => destruct c
                  | match f_quant f with _ => _ end = _ => destruct (f_quant f)
                  end; inversion H; subst s; apply Fin; assumption).
    cbn [slot_shape] in Se, Sl. rewrite !andb_true_iff in Se, Sl. destruct Se as [_ Ce]. destruct Sl as [_ Cl].
    unfold cell_shape in Ce, Cl. rewrite ET in Ce, Cl.
    destruct ev as [| | |[em|]]; try discriminate Ce; destruct lv as [| | |[lm|]]; try discriminate Cl.
    + destruct (mrg em lm) as [m|e1] eqn:Em; cbn [bind] in H; [|discriminate H]. inversion H; subst s. apply Fin.
      apply andb_true_iff in Ce, Cl. destruct Ce as [Se De], Cl as [Sl Dl]. apply Nat.eqb_eq in De, Dl.
      unfold gcell in Ge, Gl |- *. cbn [gslot] in Ge, Gl. rewrite EL in Ge, Gl. cbn [label_eqb] in Ge, Gl. rewrite andb_true_r in Ge, Gl.
      unfold gcell in Ge, Gl. rewrite ET in Ge, Gl |- *. apply andb_true_iff in Ge, Gl.
      rewrite (HQ lm eq_refl em m Se Sl ltac:(congruence) (proj1 Ge) (proj1 Gl) Em). cbn [andb].
      apply Nat.eqb_eq. rewrite (merge_desc E em lm m Em). exact Dl.
    + inversion H; subst s. apply Fin. exact KeepE.
    + inversion H; subst s. apply Fin. exact KeepL.
    + inversion H; subst s. apply Fin. exact KeepL.
  - (* repeated *)
    destruct es as [eh ev|ne ce ae|ge]; destruct ls as [lh lv|nl cl al|gl]; try discriminate H.
    destruct (ne >? 0) eqn:Ene; [|inversion H; subst s; exact KeepL].
    destruct (nl >? 0) eqn:Enl.
    + destruct ae as [le|]; [|discriminate H]. destruct al as [ll|]; [|discriminate H].
      destruct ((ne <=? Mem.zlen le) && (nl <=? Mem.zlen ll)); [|discriminate H]. inversion H; subst s.
      cbn [gslot] in *. apply andb_true_iff in Ge, Gl, KeepE, KeepL. destruct Ge as [Ge _], Gl as [Gl _].
      apply andb_true_iff. split; [lia|]. rewrite forallb_app.
      rewrite (forallb_firstn _ _ _ _ (proj2 KeepE)), (forallb_firstn _ _ _ _ (proj2 KeepL)). reflexivity.
    + inversion H; subst s. cbn [gslot] in *. apply andb_true_iff in KeepE. destruct KeepE as [K1 K2]. rewrite K2, K1. reflexivity.
  - (* implicit presence: as optional *)
    destruct es as [eh ev|ne ce ae|ge]; destruct ls as [lh lv|nl cl al|gl]; try discriminate H;
      [|inversion H; subst s; exact KeepL].
    cbn [gslot] in KeepE, KeepL |- *. rewrite EL in KeepE, KeepL. cbn [label_eqb] in KeepE, KeepL. rewrite andb_true_r in KeepE, KeepL.
    assert (Fin : forall h v, gcell g12 f false v = true -> gslot (B1 + B2) g12 f (SOne h v) = true).
    { intros h v Hv. cbn [gslot]. rewrite EL, Hv. reflexivity. }
    cbn [slot_all] in HQ.
    destruct (f_type f) eqn:ET;
      try (repeat match type of H with
                  | bind ?X _ = _ => destruct X; cbn [bind] in H; [|discriminate H]
                  | (if ?c then _ else _) = _ => destruct c
                  | match f_quant f with _ => _ end = _ => destruct (f_quant f)
                  end; inversion H; subst s; apply Fin; assumption).
    cbn [slot_shape] in Se, Sl. rewrite !andb_true_iff in Se, Sl. destruct Se as [_ Ce]. destruct Sl as [_ Cl].
    unfold cell_shape in Ce, Cl. rewrite ET in Ce, Cl.
    destruct ev as [| | |[em|]]; try discriminate Ce; destruct lv as [| | |[lm|]]; try discriminate Cl.
    + destruct (mrg em lm) as [m|e1] eqn:Em; cbn [bind] in H; [|discriminate H]. inversion H; subst s. apply Fin.
      apply andb_true_iff in Ce, Cl. destruct Ce as [Se De], Cl as [Sl Dl]. apply Nat.eqb_eq in De, Dl.
      unfold gcell in Ge, Gl |- *. cbn [gslot] in Ge, Gl. rewrite EL in Ge, Gl. cbn [label_eqb] in Ge, Gl. rewrite andb_true_r in Ge, Gl.
      unfold gcell in Ge, Gl. rewrite ET in Ge, Gl |- *. apply andb_true_iff in Ge, Gl.
      rewrite (HQ lm eq_refl em m Se Sl ltac:(congruence) (proj1 Ge) (proj1 Gl) Em). cbn [andb].
      apply Nat.eqb_eq. rewrite (merge_desc E em lm m Em). exact Dl.
    + inversion H; subst s. apply Fin. exact KeepE.
    + inversion H; subst s. apply Fin. exact KeepL.
    + inversion H; subst s. apply Fin. exact KeepL.
Qed.

Lemma merge_slots_good : forall nu fs es ls ss,
  slots_shape shp nu fs es = true -> slots_shape shp nu fs ls = true -> Forall (slot_all mgoodv) ls ->
  all2 (gslot B1 g1) fs es = true -> all2 (gslot B2 g2) fs ls = true ->
  merge_slots mrg fs es ls = Ok ss -> all2 (gslot (B1 + B2) g12) fs ss = true.
Proof.
  intros nu. induction fs as [|f fs IH]; intros es ls ss Se Sl HQ Ge Gl H.
  - destruct ss; reflexivity.
  - destruct es as [|e es]; [discriminate Se|]. destruct ls as [|l ls]; [discriminate Sl|].
    cbn [slots_shape] in Se, Sl. apply andb_true_iff in Se, Sl. destruct Se as [Se1 Se2], Sl as [Sl1 Sl2].
    rewrite all2_cons in Ge, Gl. apply andb_true_iff in Ge, Gl. destruct Ge as [Ge1 Ge2], Gl as [Gl1 Gl2].
    inversion HQ as [|? ? HQ1 HQ2]; subst.
    cbn [merge_slots] in H. fold (merge_slots mrg) in H.
    destruct (merge_slot mrg f e l) as [s|e1] eqn:Es; cbn [bind] in H; [|discriminate H].
    destruct (merge_slots mrg fs es ls) as [r|e1] eqn:Er; cbn [bind] in H; [|discriminate H].
    inversion H; subst ss. rewrite all2_cons.
    rewrite (merge_slot_good nu f e l s Se1 Sl1 HQ1 Ge1 Gl1 Es). cbn [andb].
    exact (IH es ls r Se2 Sl2 HQ2 Ge2 Gl2 Er).
Qed.

Section Union.
Variable md : mdesc.
Hypothesis D : desc_ok (length E) md = true.
Notation fs := (md_fields md).

Lemma merge_union_good : forall g eu lu u,
  union_shape shp fs g eu = true -> union_shape shp fs g lu = true -> mgoodv (snd lu) ->
  gunion g1 fs g eu = true -> gunion g2 fs g lu = true ->
  merge_union mrg md g eu lu = Ok u -> gunion g12 fs g u = true.
Proof.
  intros g [ec ev] [lc lv] u Se Sl HQ Ge Gl H. cbn [snd] in HQ.
  pose proof (gunion_mono E B1 (B1 + B2) fs g (ec, ev) ltac:(lia) Ge) as KeepE.
  pose proof (gunion_mono E B2 (B1 + B2) fs g (lc, lv) ltac:(lia) Gl) as KeepL.
  unfold merge_union in H.
  destruct (Z.eqb_spec lc 0) as [Elc|Elc].
  - destruct (Z.eqb_spec ec 0) as [Eec|Eec]; [inversion H; subst u; exact KeepL|].
    destruct (find_field md ec) as [i|]; [|discriminate H].
    destruct (nth_error fs i) as [f|]; [|discriminate H].
    destruct (negb (in_group f g)); [discriminate H|].
    destruct (f_type f); try (inversion H; subst u; exact KeepE).
    destruct ev as [w| | |[em|]]; try discriminate H; try (inversion H; subst u; exact KeepE); try (inversion H; subst u; exact KeepL).
    destruct w; try discriminate H. inversion H; subst u; exact KeepL.
  - destruct (Z.eqb_spec lc ec) as [Ec|Ec]; [|inversion H; subst u; exact KeepL].
    subst ec.
    destruct (find_by_id _ lc) as [f|] eqn:Ef; [|inversion H; subst u; exact KeepL].
    unfold find_by_id in Ef. apply find_some in Ef. destruct Ef as [Hin Hid].
    apply filter_In in Hin. destruct Hin as [Hin _]. apply Z.eqb_eq in Hid.
    destruct (f_type f) eqn:ET; try (inversion H; subst u; exact KeepL).
    destruct (union_shape_inv E _ _ _ _ Se) as [[H0 _]|(fe & Hine & Hide & Hqe & Hoe & Hce)]; [contradiction|].
    destruct (union_shape_inv E _ _ _ _ Sl) as [[H0 _]|(fl & Hinl & Hidl & Hql & Hol & Hcl)]; [contradiction|].
    assert (fe = f) by (apply (field_unique E md D); [assumption | assumption | congruence]).
    assert (fl = f) by (apply (field_unique E md D); [assumption | assumption | congruence]).
    subst fe fl. unfold cell_shape in Hce, Hcl. rewrite ET in Hce, Hcl.
    destruct (gunion_inv _ _ _ _ _ Ge) as [[H0 _]|(fe & Hine' & Hide' & _ & _ & Gce)]; [contradiction|].
    destruct (gunion_inv _ _ _ _ _ Gl) as [[H0 _]|(fl & Hinl' & Hidl' & _ & _ & Gcl)]; [contradiction|].
    assert (fe = f) by (apply (field_unique E md D); [assumption | assumption | congruence]).
    assert (fl = f) by (apply (field_unique E md D); [assumption | assumption | congruence]).
    subst fe fl. unfold gcell in Gce, Gcl. rewrite ET in Gce, Gcl.
    destruct ev as [| | |[em|]]; try discriminate Hce; destruct lv as [| | |[lm|]]; try discriminate Hcl;
      try (inversion H; subst u; exact KeepL).
    + destruct (mrg em lm) as [m|e1] eqn:Em; cbn [bind] in H; [|discriminate H]. inversion H; subst u.
      apply andb_true_iff in Hce, Hcl, Gce, Gcl. destruct Hce as [Se' De], Hcl as [Sl' Dl]. apply Nat.eqb_eq in De, Dl.
      rewrite <- Hid. apply gunion_member; try assumption. unfold gcell. rewrite ET.
      rewrite (HQ lm eq_refl em m Se' Sl' ltac:(congruence) (proj1 Gce) (proj1 Gcl) Em). cbn [andb].
      apply Nat.eqb_eq. rewrite (merge_desc E em lm m Em). exact Dl.
    + inversion H; subst u. exact KeepE.
Qed.

Lemma merge_unions_good : forall lu g eu us,
  unions_shape shp fs g eu = true -> unions_shape shp fs g lu = true ->
  Forall (fun cv : Z * sval => mgoodv (snd cv)) lu ->
  gunions g1 fs g eu = true -> gunions g2 fs g lu = true ->
  merge_unions mrg md g eu lu = Ok us -> gunions g12 fs g us = true.
Proof.
  induction lu as [|l lu IH]; intros g eu us Se Sl HQ Ge Gl H.
  - destruct eu; cbn [merge_unions] in H; inversion H; reflexivity.
  - destruct eu as [|e eu]; [discriminate H|].
    cbn [unions_shape] in Se, Sl. apply andb_true_iff in Se, Sl. destruct Se as [Se1 Se2], Sl as [Sl1 Sl2].
    cbn [gunions] in Ge, Gl. fold (gunions g1 fs) in Ge. fold (gunions g2 fs) in Gl.
    apply andb_true_iff in Ge, Gl. destruct Ge as [Ge1 Ge2], Gl as [Gl1 Gl2].
    inversion HQ as [|? ? HQ1 HQ2]; subst.
    cbn [merge_unions] in H. fold (merge_unions mrg md) in H.
    destruct (merge_union mrg md g e l) as [u|e1] eqn:Eu; cbn [bind] in H; [|discriminate H].
    destruct (merge_unions mrg md (S g) eu lu) as [r|e1] eqn:Er; cbn [bind] in H; [|discriminate H].
    inversion H; subst us. cbn [gunions]. fold (gunions g12 fs).
    rewrite (merge_union_good g e l u Se1 Sl1 HQ1 Ge1 Gl1 Eu). cbn [andb].
    exact (IH (S g) eu r Se2 Sl2 HQ2 Ge2 Gl2 Er).
Qed.

End Union.

Theorem merge_good : forall l, mgood l.
Proof.
  apply (msg_ind2 mgood mgoodv); unfold mgoodv; try (intros; discriminate).
  - intros m IH lm Hv. inversion Hv; subst. exact IH.
  - intros d ls lu lk HS HU [de es eu ek] m Se Sl Dd Ge Gl H. cbn [m_desc] in Dd. subst de.
    cbn [shape_msg] in Se, Sl. cbn [good_msg] in Ge, Gl. destruct (nth_error E d) as [md|] eqn:Emd; [|discriminate Sl].
    rewrite !andb_true_iff in Se, Sl, Ge, Gl. destruct Se as [[Se1 Se2] Se3], Sl as [[Sl1 Sl2] Sl3].
    destruct Ge as [[Ge1 Ge2] Ge3], Gl as [[Gl1 Gl2] Gl3].
    apply Nat.eqb_eq in Se2, Sl2. rewrite Se2 in Se1. rewrite Sl2 in Sl1.
    pose proof (env_desc_ok E EO d md Emd) as D.
    cbn [merge_messages m_slots m_unions m_unk] in H. rewrite Emd in H.
    fold (merge_slots mrg) in H. fold (merge_unions mrg md) in H.
    destruct (merge_slots mrg (md_fields md) es ls) as [ss|e1] eqn:Ess; cbn [bind] in H; [|discriminate H].
    destruct (merge_unions mrg md 0 eu lu) as [us|e1] eqn:Eus; cbn [bind] in H; [|discriminate H].
    inversion H; subst m. cbn [good_msg]. rewrite Emd.
    rewrite (merge_slots_good _ _ es ls ss Se1 Sl1 HS Ge1 Gl1 Ess).
    rewrite (merge_unions_good md D lu 0%nat eu us Se3 Sl3 HU Ge2 Gl2 Eus).
    rewrite forallb_app, Ge3, Gl3. reflexivity.
Qed.

End MergeGood.

(* ================================================================== *)
(* Part 4.  A well-shaped good message is well-formed, check-accepted, and typed when its unknowns are small *)

Lemma unions_shape_nth' : forall E fs us g0 g cv,
  unions_shape (shape_msg E) fs g0 us = true -> nth_error us g = Some cv -> union_shape (shape_msg E) fs (g0 + g) cv = true.
Proof.
  intros E fs. induction us as [|x t IH]; intros g0 g cv H Hn; [destruct g; discriminate Hn|].
  cbn [unions_shape] in H. fold (unions_shape (shape_msg E) fs) in H. apply andb_true_iff in H. destruct H as [Hx Ht].
  destruct g as [|g]; cbn [nth_error] in Hn.
  - inversion Hn; subst. replace (g0 + 0)%nat with g0 by lia. exact Hx.
  - replace (g0 + S g)%nat with (S g0 + g)%nat by lia. exact (IH (S g0) g cv Ht Hn).
Qed.

Section Final.
Variable E : env.
Hypothesis EO : env_ok E = true.
Variable B : Z.
Hypothesis HB : B < 268435456.
Notation shp := (shape_msg E).
Notation good := (good_msg E B).
Notation wfm := (wf_msg E).
Notation ckm := (check_msg E).
Notation tym := (typed_msg E).
Notation usm := (unk_small E).

Definition fP (m : msg) : Prop :=
  shp m = true -> good m = true -> wfm m = true /\ ckm m = Ok true /\ (usm m = true -> tym m = true).
Definition fQ (v : sval) : Prop := forall sub, v = VMsg (Some sub) -> fP sub.

Lemma cell_final : forall f ia v, fQ v -> cell_shape shp f v = true -> gcell good f ia v = true ->
  wf_cell wfm f ia v = true /\
  (unk_cell usm f v = true -> typed_cell tym f v = true) /\
  (ia = true -> ck_elem ckm f v = Ok true) /\
  (forall h, (label_eqb (f_label f) LRequired = true -> req_set f v = true) -> ck_single ckm f h v = Ok true).
Proof.
  intros f ia v HQ S G. unfold cell_shape, gcell, wf_cell, unk_cell, typed_cell, ck_elem, ck_single, req_set in *.
  destruct (f_type f) eqn:ET;
    try (destruct v as [w| | |]; try discriminate G; repeat split; auto; fail).
  - (* string *)
    destruct v as [|p| |]; try discriminate G. destruct p as [| |s].
    + apply andb_true_iff in G. destruct G as [Gi Gd]. split; [exact Gi|]. split; [auto|]. split.
      * intros Hia. rewrite Hia in Gi. discriminate Gi.
      * intros h Hr. cbn [as_str bind]. destruct (label_eqb (f_label f) LRequired); [|reflexivity].
        specialize (Hr eq_refl). discriminate Hr.
    + split; [exact G|]. split; [auto|]. split; [reflexivity|].
      intros h Hr. cbn [as_str bind]. rewrite andb_false_r. reflexivity.
    + split; [exact G|]. split; [auto|]. split; [reflexivity|].
      intros h Hr. cbn [as_str bind]. rewrite andb_false_r. reflexivity.
  - (* bytes *)
    destruct v as [| |len p|]; try discriminate G. destruct p as [| |s].
    + split; [exact G|]. split; [auto|]. split.
      * intros _. unfold bytes_ok. cbn [as_bytes bind fst snd]. rewrite G. reflexivity.
      * intros h _. match goal with |- (if ?c then _ else _) = _ => destruct c end; [|reflexivity].
        unfold bytes_ok. cbn [as_bytes bind fst snd]. rewrite G. reflexivity.
    + apply andb_true_iff in G. destruct G as [Gi Gd]. rewrite Gi. cbn [andb].
      destruct (f_default f) as [[w|x|x]|]; try discriminate Gd. split; [unfold Mem.zlen, LeafSafe.zlen in *; lia|]. split; [auto|]. split.
      * intros Hia. rewrite Hia in Gi. discriminate Gi.
      * intros h _. match goal with |- (if ?c then _ else _) = _ => destruct c end; [|reflexivity].
        unfold bytes_ok. cbn [as_bytes bind fst snd]. rewrite andb_false_r. reflexivity.
    + rewrite !andb_true_iff in G. destruct G as [[G1 G2] G3]. rewrite G3. split; [unfold Mem.zlen, LeafSafe.zlen in *; lia|]. split; [auto|]. split.
      * intros _. unfold bytes_ok. cbn [as_bytes bind fst snd]. rewrite andb_false_r. reflexivity.
      * intros h _. match goal with |- (if ?c then _ else _) = _ => destruct c end; [|reflexivity].
        unfold bytes_ok. cbn [as_bytes bind fst snd]. rewrite andb_false_r. reflexivity.
  - (* message *)
    destruct v as [| | |[m|]]; try discriminate G.
    + apply andb_true_iff in S, G. destruct S as [S1 S2], G as [G1 G2].
      destruct (HQ m eq_refl S1 G1) as (W & C & T). split; [exact W|]. split; [|split; [intros _; exact C | intros h _; exact C]].
      intros Hu. rewrite G2, (T Hu). reflexivity.
    + split; [exact G|]. split; [auto|]. split.
      * intros Hia. rewrite Hia in G. discriminate G.
      * intros h Hr. destruct (label_eqb (f_label f) LRequired); [|reflexivity]. specialize (Hr eq_refl). discriminate Hr.
Qed.

Lemma elems_final : forall f l, Forall fQ l ->
  forallb (cell_shape shp f) l = true -> forallb (gcell good f true) l = true ->
  forallb (wf_cell wfm f true) l = true /\ allM (ck_elem ckm f) l (length l) = Ok true /\
  (forall k, all_n (unk_cell usm f) l k = true -> all_n (typed_cell tym f) l k = true).
Proof.
  intros f l HF. induction HF as [|v l Hv HF IH]; intros S G.
  - split; [reflexivity|]. split; [reflexivity|]. intros k _. destruct k; reflexivity.
  - cbn [forallb] in S, G. apply andb_true_iff in S, G. destruct S as [S1 S2], G as [G1 G2].
    destruct (cell_final f true v Hv S1 G1) as (W & T & C & _). destruct (IH S2 G2) as (W' & C' & T').
    cbn [forallb length]. rewrite W, W'. split; [reflexivity|]. split.
    + rewrite allM_cons, (C eq_refl). cbn [bind]. exact C'.
    + intros [|k] Hk; [reflexivity|]. rewrite all_n_cons in *. apply andb_true_iff in Hk. destruct Hk as [K1 K2].
      rewrite (T K1), (T' k K2). reflexivity.
Qed.

Section Desc.
Variable md : mdesc.
Hypothesis D : desc_ok (length E) md = true.
Notation fs := (md_fields md).

Lemma slot_final : forall unions f s, In f fs -> slot_all fQ s -> Forall (fun cv : Z * sval => fQ (snd cv)) unions ->
  slot_shape shp (length unions) f s = true -> gslot B good f s = true ->
  unions_shape shp fs 0 unions = true -> gunions good fs 0 unions = true ->
  wf_slot wfm unions f s = true /\ ck_field ckm unions f s = Ok true /\
  (unk_slot usm unions f s = true -> typed_slot tym unions f s = true).
Proof.
  intros unions f s Hin HQ HQU S G SU GU.
  destruct (desc_ok_fields _ _ D f Hin) as (Hfok & Hid & _).
  destruct s as [h v|n cap arr|g].
  - destruct (sone_shape _ _ _ _ _ S) as (Hl & Hq & Ho & Hc).
    cbn [gslot] in G. apply andb_true_iff in G. destruct G as [G1 G2]. cbn [slot_all] in HQ.
    destruct (cell_final f false v HQ Hc G1) as (W & T & _ & C).
    unfold wf_slot, ck_field, unk_slot, typed_slot. rewrite Hl, Ho, W. cbn [negb andb].
    split; [destruct (f_label f); try reflexivity; discriminate Hl|]. split; [|exact T].
    apply C. intros Hr. rewrite Hr in G2. exact G2.
  - pose proof (srep_shape _ _ _ _ _ _ S) as Hl.
    assert (El : f_label f = LRepeated) by (destruct (f_label f); try discriminate Hl; reflexivity).
    unfold slot_shape in S. rewrite Hl in S. cbn [andb] in S.
    cbn [gslot] in G. apply andb_true_iff in G. destruct G as [G1 G2].
    unfold wf_slot, ck_field, unk_slot, typed_slot. rewrite Hl, El.
    destruct arr as [l|].
    + rewrite !andb_true_iff in S. destruct S as [[S1 S2] S3]. cbn [slot_all] in HQ.
      destruct (elems_final f l HQ S3 G2) as (W & C & T).
      assert (Hn : n = Mem.zlen l) by lia. rewrite W. split; [unfold Mem.zlen in *; lia|]. split; [|apply T].
      replace (Z.to_nat n) with (length l) by (unfold Mem.zlen in Hn; lia).
      destruct (f_type f); try reflexivity; exact C.
    + split; [lia|]. split; [rewrite S; reflexivity | auto].
  - destruct (sunion_shape _ _ _ _ S) as (Hq & Ho & Hg).
    assert (Hlab : f_label f = LOptional \/ f_label f = LNone).
    { unfold slot_shape in S. rewrite !andb_true_iff in S. destruct S as [[[S1 _] _] _].
      destruct (f_label f); try discriminate S1; auto. }
    destruct (nth_error unions g) as [[c v]|] eqn:Eu; [|apply nth_error_None in Eu; lia].
    unfold wf_slot, ck_field, unk_slot, typed_slot. rewrite Hq, Ho, Nat.eqb_refl.
    rewrite !(with_nth_nth _ _ _ _ _ _ _ Eu). cbn [fst snd andb].
    assert (Hnr : label_eqb (f_label f) LRequired = false) by (destruct Hlab as [-> | ->]; reflexivity).
    rewrite (Z.eqb_sym (f_id f) c).
    destruct (Z.eqb_spec c (f_id f)) as [Hc|Hc]; cbn [negb].
    2:{ split; [destruct Hlab as [-> | ->]; reflexivity | split; [reflexivity | auto]]. }
    subst c.
    pose proof (unions_shape_nth' E fs unions 0 g _ SU Eu) as Su. cbn [plus] in Su.
    pose proof (gunions_nth _ _ unions 0 g _ GU Eu) as Gu. cbn [plus] in Gu.
    destruct (union_shape_inv E _ _ _ _ Su) as [[H0 _]|(f1 & Hin1 & Hid1 & _ & _ & Hc1)]; [lia|].
    destruct (gunion_inv _ _ _ _ _ Gu) as [[H0 _]|(f2 & Hin2 & Hid2 & _ & _ & Hc2)]; [lia|].
    assert (f1 = f) by (apply (field_unique E md D); assumption). assert (f2 = f) by (apply (field_unique E md D); assumption).
    subst f1 f2.
    assert (HQv : fQ v) by (rewrite Forall_forall in HQU; exact (HQU (f_id f, v) (nth_error_In _ _ Eu))).
    destruct (cell_final f false v HQv Hc1 Hc2) as (W & T & _ & C). rewrite W.
    split; [destruct Hlab as [-> | ->]; reflexivity|]. split; [|exact T].
    apply C. intros Hr. rewrite Hr in Hnr. discriminate Hnr.
Qed.

Lemma slots_final : forall unions fl ss, (forall f, In f fl -> In f fs) -> Forall (slot_all fQ) ss ->
  Forall (fun cv : Z * sval => fQ (snd cv)) unions ->
  slots_shape shp (length unions) fl ss = true -> all2 (gslot B good) fl ss = true ->
  unions_shape shp fs 0 unions = true -> gunions good fs 0 unions = true ->
  wf_slots wfm unions fl ss = true /\ ck_fields ckm unions fl ss = Ok true /\
  (all2 (unk_slot usm unions) fl ss = true -> all2 (typed_slot tym unions) fl ss = true).
Proof.
  intros unions. induction fl as [|f fl IH]; intros ss Hsub HQ HQU S G SU GU.
  - destruct ss; [|discriminate S]. repeat split; auto.
  - destruct ss as [|s ss]; [discriminate S|].
    cbn [slots_shape] in S. apply andb_true_iff in S. destruct S as [S1 S2].
    rewrite all2_cons in G. apply andb_true_iff in G. destruct G as [G1 G2].
    inversion HQ as [|? ? HQ1 HQ2]; subst.
    destruct (slot_final unions f s (Hsub f (or_introl eq_refl)) HQ1 HQU S1 G1 SU GU) as (W & C & T).
    destruct (IH ss (fun x Hx => Hsub x (or_intror Hx)) HQ2 HQU S2 G2 SU GU) as (W' & C' & T').
    rewrite wf_slots_cons, ck_fields_cons, W, W', C. cbn [bind andb]. split; [reflexivity|]. split; [exact C'|].
    rewrite !all2_cons. intros Hu. apply andb_true_iff in Hu. destruct Hu as [U1 U2]. rewrite (T U1), (T' U2). reflexivity.
Qed.

Lemma typed_unions_final : forall us g0, gunions good fs g0 us = true -> typed_unions fs g0 us = true.
Proof.
  induction us as [|[c v] t IH]; intros g0 H; [reflexivity|].
  cbn [gunions] in H. fold (gunions good fs) in H. apply andb_true_iff in H. destruct H as [H1 H2].
  cbn [typed_unions]. rewrite (IH (S g0) H2), andb_true_r. apply forallb_forall. intros f Hin. cbn [fst].
  destruct (Z.eqb_spec (f_id f) c) as [Hc|Hc]; [|reflexivity].
  destruct (desc_ok_fields _ _ D f Hin) as (_ & Hid & _).
  destruct (gunion_inv _ _ _ _ _ H1) as [[H0 _]|(f1 & Hin1 & Hid1 & Hq1 & _ & _)]; [lia|].
  assert (f1 = f) by (apply (field_unique E md D); [assumption | assumption | congruence]). subst f1.
  rewrite Hq1. apply Nat.eqb_refl.
Qed.

Lemma unk_final : forall u, gunk md u = true ->
  wf_unk u = true /\ ((u_tag u <? 536870912) = true -> canon_unk (map f_id fs) u = true).
Proof.
  intros u H. unfold gunk in H. rewrite !andb_true_iff in H. destruct H as [[H1 H2] H3]. split; [exact H1|].
  intros Hs. unfold canon_unk. rewrite Hs, H2. unfold wf_unk in H1. rewrite !andb_true_iff in H1.
  destruct H1 as [[[[T0 _] _] _] _]. rewrite T0. cbn [andb]. rewrite andb_true_r. apply negb_true_iff.
  destruct (existsb (Z.eqb (u_tag u)) (map f_id fs)) eqn:Ex; [|reflexivity]. exfalso.
  apply existsb_exists in Ex. destruct Ex as (id & Hin & Heq). apply Z.eqb_eq in Heq. subst id.
  apply in_map_iff in Hin. destruct Hin as (f & Hid & Hin). apply In_nth_error in Hin. destruct Hin as (i & Hi).
  rewrite <- Hid in H3. rewrite (find_field_known (length E) md D i f Hi) in H3. discriminate H3.
Qed.

Lemma unks_final : forall unk, forallb (gunk md) unk = true ->
  forallb wf_unk unk = true /\
  (forallb (fun u => u_tag u <? 536870912) unk = true -> forallb (canon_unk (map f_id fs)) unk = true).
Proof.
  induction unk as [|u t IH]; intros H; [split; reflexivity|].
  cbn [forallb] in *. apply andb_true_iff in H. destruct H as [H1 H2].
  destruct (unk_final u H1) as [W C]. destruct (IH H2) as [W' C']. rewrite W, W'. split; [reflexivity|].
  intros Hs. apply andb_true_iff in Hs. destruct Hs as [S1 S2]. rewrite (C S1), (C' S2). reflexivity.
Qed.

End Desc.

Lemma final_P : forall m, fP m.
Proof.
  apply (msg_ind2 fP fQ); unfold fQ; try (intros; discriminate).
  - intros m IH sub Hv. inversion Hv; subst. exact IH.
  - intros d slots unions unk HS HU S G.
    cbn [shape_msg good_msg wf_msg check_msg typed_msg unk_small] in *.
    destruct (nth_error E d) as [md|] eqn:Emd; [|discriminate S].
    pose proof (env_desc_ok E EO d md Emd) as D.
    rewrite !andb_true_iff in S, G. destruct S as [[S1 S2] S3]. destruct G as [[G1 G2] G3].
    destruct (slots_final md D unions (md_fields md) slots (fun f Hf => Hf) HS HU S1 G1 S3 G2) as (W & C & T).
    destruct (unks_final md D unk G3) as (WU & CU).
    rewrite W, WU, S2. split; [|split; [exact C|]].
    + rewrite !andb_true_r. apply forallb_forall. intros f Hf. exact (proj1 (desc_ok_fields _ _ D f Hf)).
    + intros Hu. apply andb_true_iff in Hu. destruct Hu as [U1 U2]. unfold typed_slots.
      rewrite (T U1), (typed_unions_final md D unions 0%nat G2), (CU U2). reflexivity.
Qed.

End Final.

(* ================================================================== *)
(* Part 5.  The value-level invariant along parse_members              *)

Lemma takewhile_nz_cons : forall b t, takewhile_nz (b :: t) = if b =? 0 then [] else b :: takewhile_nz t.
Proof. reflexivity. Qed.

Lemma takewhile_nz_char : forall l, bytes l -> forallb char_ok (takewhile_nz l) = true.
Proof.
  induction l as [|b t IH]; intros HB; [reflexivity|]. rewrite takewhile_nz_cons.
  assert (Hb : 0 <= b < 256) by (apply (bytes_in _ HB); left; reflexivity).
  assert (HBt : bytes t) by (unfold bytes in *; inversion HB; assumption).
  destruct (Z.eqb_spec b 0) as [Hz|Hnz]; [reflexivity|]. cbn [forallb]. rewrite (IH HBt). unfold char_ok. lia.
Qed.

Lemma init_cell_good : forall r nu f, field_ok nu f = true -> gcell r f false (init_cell f) = true.
Proof.
  intros r nu f Hok. pose proof (field_ok_dflt nu f Hok) as Hd. unfold gcell, init_cell.
  destruct (f_type f) eqn:Et; try reflexivity.
  - destruct (f_default f) as [[w|s|s]|]; try discriminate Hd; reflexivity.
  - destruct (f_default f) as [[w|s|s]|]; try discriminate Hd; cbn [negb andb]; try reflexivity. apply Z.eqb_refl.
Qed.

Lemma parse_packed_words : forall f sm okc c vs, is_scalar (f_type f) = true ->
  bytes (sm_data sm) -> 0 <= sm_pref sm <= sm_len sm -> sm_len sm = Mem.zlen (sm_data sm) -> sm_len sm < 4294967296 ->
  count_packed_elements (type_code (f_type f)) (sm_len sm - sm_pref sm) (skipn (Z.to_nat (sm_pref sm)) (sm_data sm)) 0 = (okc, c) ->
  okc <> 0 -> parse_packed f sm = Ok vs ->
  Mem.zlen vs <= c /\ Forall (fun v => exists w, v = VWord w) vs.
Proof.
  intros f sm okc c vs H1 H2 H3 H4 H5 H6 H7 H8.
  destruct (parse_packed_le_count f sm okc c vs H1 H2 H3 H4 H5 H6 H7 H8) as (Ha & _ & Hb). split; [exact Ha | exact Hb].
Qed.

Section PV.
Variable E : env.
Hypothesis EO : env_ok E = true.
Notation shp := (shape_msg E).
Notation gd := (good_msg E).

Variable N : Z.
Hypothesis HN : N < 2147483648.

Variable usub : nat -> list Z -> res msg.
Hypothesis Husub : forall d' payload, bytes payload -> Mem.zlen payload < N -> (d' < length E)%nat ->
  okres (fun m' => shp m' = true /\ m_desc m' = d') (usub d' payload).
Hypothesis HusubG : forall d' payload m', bytes payload -> Mem.zlen payload < N -> (d' < length E)%nat ->
  usub d' payload = Ok m' -> gd (Mem.zlen payload) m' = true.

Variable d : nat.
Variable md : mdesc.
Hypothesis Hmd : nth_error E d = Some md.
Notation fs := (md_fields md).
Notation nun := (md_n_oneofs md).

Variable Ms : list smember.
Hypothesis HMs : Forall (member_ok md) Ms.
Hypothesis HMsN : data_total Ms + Z.of_nat (length Ms) <= N.
Hypothesis HMx : Forall (member_extra md) Ms.

Notation pinv' := (pinv E d md Ms).

Let Dmd' : desc_ok (length E) md = true := Dmd E EO d md Hmd.

Lemma member_len' : forall sm, In sm Ms -> sm_len sm < N.
Proof.
  intros sm Hin.
  exact (member_len E parse_tag_range_bytes count_packed_elements_le_len parse_packed_words parse_packed_err N usub Husub d md Ms HMs HMsN sm Hin).
Qed.

Lemma step' : forall sm done m,
  In sm Ms -> (forall x, In x done -> In x Ms) -> (forall i, total md i (sm :: done) <= total md i Ms) -> pinv' done m ->
  okres (pinv' (sm :: done)) (parse_member E usub md sm m).
Proof.
  exact (parse_member_step E EO parse_tag_range_bytes count_packed_elements_le_len parse_packed_words parse_packed_err
           (merge_shape E EO) N HN usub Husub d md Hmd Ms HMs HMsN).
Qed.

(* ---- one cell *)
Lemma parse_required_good : forall f sm old mc v Bo,
  In f fs -> member_ok md sm -> sm_len sm < N -> 0 <= Bo ->
  ((cell_shape shp f old = true /\ gcell (gd Bo) f false old = true) \/ old = VWord 0) ->
  parse_required E usub f sm old mc = Ok v ->
  gcell (gd (Mem.zlen (sm_data sm) + Bo)) f true v = true.
Proof.
  intros f sm old mc v Bo Hin (HB & Hl & Hp & Hl1 & _) HlN HBo Hold H.
  destruct (field_facts E EO d md Hmd f Hin) as (Hok & Hid & Hsub).
  set (payload := skipn (Z.to_nat (sm_pref sm)) (sm_data sm)).
  assert (HBp : bytes payload) by (apply bytes_skipn; exact HB).
  assert (Hpl : Mem.zlen payload = sm_len sm - sm_pref sm) by (unfold payload, Mem.zlen in *; rewrite skipn_length; lia).
  unfold parse_required in H. fold payload in H. unfold gcell.
  destruct (f_type f) eqn:Et;
    try (match type of H with bind ?X _ = _ => destruct X as [w|e1]; cbn [bind] in H; [|discriminate H] end;
         inversion H; reflexivity).
  - destruct (negb (sm_wt sm =? WT_LEN)); [discriminate H|]. inversion H. apply takewhile_nz_char. exact HBp.
  - destruct (negb (sm_wt sm =? WT_LEN)); [discriminate H|].
    destruct (Z.gtb_spec (sm_len sm) (sm_pref sm)) as [Hgt|Hle]; inversion H; [|reflexivity].
    fold payload. rewrite (bytes_forallb _ HBp). rewrite Hpl. rewrite Z.eqb_refl. rewrite !andb_true_r. lia.
  - destruct (negb (sm_wt sm =? WT_LEN)); [discriminate H|].
    destruct (usub (f_sub f) payload) as [sub|e1] eqn:Eu; cbn [bind] in H; [|discriminate H].
    assert (HplN : Mem.zlen payload < N) by lia.
    pose proof (Husub (f_sub f) payload HBp HplN (Hsub eq_refl)) as HS. rewrite Eu in HS. cbn [okres] in HS. destruct HS as [Ss Ds].
    pose proof (HusubG (f_sub f) payload sub HBp HplN (Hsub eq_refl) Eu) as Gs.
    assert (Fresh : (gd (Mem.zlen (sm_data sm) + Bo) sub && Nat.eqb (m_desc sub) (f_sub f))%bool = true).
    { rewrite (good_mono E (Mem.zlen payload) (Mem.zlen (sm_data sm) + Bo) sub ltac:(lia) Gs), Ds, Nat.eqb_refl. reflexivity. }
    destruct mc; [|inversion H; exact Fresh].
    assert (Hom : exists o, as_msg old = Ok o /\
              match o with Some om => shp om = true /\ m_desc om = f_sub f /\ gd Bo om = true | None => True end).
    { destruct Hold as [[Hc Hg] | ->]; [|exists None; split; [reflexivity | exact I]].
      unfold cell_shape in Hc. unfold gcell in Hg. rewrite Et in Hc, Hg. destruct old as [w| | |[om|]]; try discriminate Hc.
      - apply andb_true_iff in Hc, Hg. destruct Hc as [H1 H2]. apply Nat.eqb_eq in H2. exists (Some om). split; [reflexivity|]. tauto.
      - exists None. split; [reflexivity | exact I]. }
    destruct Hom as (o & Eo & Ho). rewrite Eo in H. cbn [bind] in H.
    destruct o as [om|]; [|inversion H; exact Fresh].
    destruct Ho as (Hos & Hod & Hog).
    destruct (merge_messages E om sub) as [m|e1] eqn:Em; cbn [bind] in H; [|discriminate H]. inversion H.
    pose proof (merge_good E EO Bo (Mem.zlen payload) HBo ltac:(lia) sub om m Hos Ss ltac:(congruence) Hog Gs Em) as Gm.
    rewrite (good_mono E (Bo + Mem.zlen payload) (Mem.zlen (sm_data sm) + Bo) m ltac:(lia) Gm). cbn [andb].
    apply Nat.eqb_eq. rewrite (merge_desc E om sub m Em). exact Ds.
Qed.

(* ---- the invariant *)
Definition vslot (done : list smember) (i : nat) (f : field) (s : slot) : Prop :=
  match s with
  | SOne h v =>
      gcell (gd (data_total done)) f false v = true /\
      (label_eqb (f_label f) LRequired = true -> (exists sm, In sm done /\ sm_field sm = Some i) -> req_set f v = true)
  | SRep n cap arr =>
      match arr with Some l => forallb (gcell (gd (data_total done)) f true) l = true | None => True end
  | SUnion g => True
  end.

Definition vinv (done : list smember) (m : msg) : Prop :=
  match m with
  | Msg d' slots unions unk =>
      (forall i f s, nth_error fs i = Some f -> nth_error slots i = Some s -> vslot done i f s) /\
      (forall g cv, nth_error unions g = Some cv -> gunion (gd (data_total done)) fs g cv = true) /\
      forallb (gunk md) unk = true
  end.

Lemma dt_cons_le : forall sm done, data_total done <= data_total (sm :: done).
Proof. intros sm done. cbn [data_total]. unfold Mem.zlen. lia. Qed.

Lemma vslot_mono : forall sm done j f s, sm_field sm <> Some j -> vslot done j f s -> vslot (sm :: done) j f s.
Proof.
  intros sm done j f s Hne H. pose proof (dt_cons_le sm done) as Hle. destruct s as [h v|n c [l|]|g]; cbn [vslot] in *; auto.
  - destruct H as [H1 H2]. split; [exact (gcell_mono E _ _ f false v Hle H1)|].
    intros Hr (x & [Hx|Hx] & Hf); [subst x; contradiction|]. apply H2; [exact Hr | exists x; auto].
  - exact (gcells_mono E _ _ f true l Hle H).
Qed.

(* ---- one member *)
Lemma parse_member_good : forall sm done m m',
  In sm Ms -> (forall x, In x done -> In x Ms) -> pinv' done m -> vinv done m ->
  parse_member E usub md sm m = Ok m' -> vinv (sm :: done) m'.
Proof.
  intros sm done [d' slots unions unk] m' Hin Hdone HP (VS & VU & VK) H.
  pose proof HP as (Hd & Hlen & Hslots & Hun & Hus).
  assert (Hmok : member_ok md sm) by (exact (proj1 (Forall_forall _ _) HMs sm Hin)).
  assert (Hmx : member_extra md sm) by (exact (proj1 (Forall_forall _ _) HMx sm Hin)).
  pose proof (member_len' sm Hin) as HlN.
  pose proof (dt_cons_le sm done) as Hle.
  pose proof (data_total_nonneg done) as Hdt0.
  assert (UMono : forall g cv, nth_error unions g = Some cv -> gunion (gd (data_total (sm :: done))) fs g cv = true).
  { intros g cv Hg. exact (gunion_mono E _ _ fs g cv Hle (VU g cv Hg)). }
  unfold parse_member in H.
  destruct (sm_field sm) as [i|] eqn:Ef.
  2:{ inversion H; subst m'; clear H. unfold vinv. split; [|split; [exact UMono|]].
      - intros j f s Hf Hs. apply vslot_mono; [rewrite Ef; discriminate | exact (VS j f s Hf Hs)].
      - rewrite forallb_app, VK. cbn [forallb andb]. rewrite andb_true_r.
        destruct Hmx as (Ht & Hw & Hff & Hpay). destruct Hmok as (HB & _).
        unfold gunk, wf_unk. cbn [u_tag u_wt u_data]. rewrite Hpay, (bytes_forallb _ HB).
        rewrite <- Hff, Ef. cbn [andb]. lia. }
  destruct Hmok as (HB & Hl & Hp & Hl1 & Hfield & Hpok).
  assert (Hmok : member_ok md sm) by (exact (proj1 (Forall_forall _ _) HMs sm Hin)).
  destruct (Hfield i Ef) as (f & Hn & Hid). rewrite Hn in H.
  destruct (Hslots i f Hn) as (s & Hs & Hsi). rewrite Hs in H.
  assert (Hinf : In f fs) by (eapply nth_error_In; exact Hn).
  destruct (field_facts E EO d md Hmd f Hinf) as (Hfok & Hidr & Hsub).
  pose proof (VS i f s Hn Hs) as Vs.
  assert (Hil : (i < length slots)%nat) by (apply nth_error_Some; congruence).
  (* replacing slot i *)
  assert (SetSlot : forall s', vslot (sm :: done) i f s' -> vinv (sm :: done) (Msg d' (set_nth slots i s') unions unk)).
  { intros s' Hs'. unfold vinv. split; [|split; [exact UMono | exact VK]].
    intros j g x Hg Hx. destruct (Nat.eq_dec i j) as [<-|Hne].
    - rewrite set_nth_at in Hx by exact Hil. inversion Hx; subst x. rewrite Hn in Hg. inversion Hg; subst g. exact Hs'.
    - rewrite set_nth_other in Hx by exact Hne. apply vslot_mono; [rewrite Ef; congruence | exact (VS j g x Hg Hx)]. }
  (* a singular member outside every oneof *)
  assert (One : forall h old h', s = SOne h old -> label_eqb (f_label f) LRepeated = false ->
            forall v, parse_required E usub f sm old true = Ok v ->
            vinv (sm :: done) (Msg d' (set_nth slots i (SOne h' v)) unions unk)).
  { intros h old h' -> Hnr v Hv. apply SetSlot. unfold slot_inv in Hsi. rewrite Hnr in Hsi.
    destruct (sone_shape _ _ _ _ _ Hsi) as (_ & _ & _ & Hc). cbn [vslot] in Vs. destruct Vs as [Vc _].
    pose proof (parse_required_good f sm old true v (data_total done) Hinf Hmok HlN Hdt0 (or_introl (conj Hc Vc)) Hv) as G.
    cbn [vslot data_total]. split; [exact (gcell_arr _ _ _ G) | intros _ _; exact (gcell_arr_set _ _ _ G)]. }
  (* a member of a oneof *)
  assert (Uni : label_eqb (f_label f) LRepeated = false -> forall g case cell c0 v, s = SUnion g -> nth_error unions g = Some (case, cell) ->
            (if negb (case =? 0) && negb ((case =? sm_tag sm) && ftype_eqb (f_type f) TMessage)
             then match find_field md case with None => Err EFail | Some _ => Ok (VWord 0) end else Ok cell) = Ok c0 ->
            parse_required E usub f sm c0 true = Ok v ->
            vinv (sm :: done) (Msg d' slots (set_nth unions g (sm_tag sm, v)) unk)).
  { intros Hnr g case cell c0 v -> Eu Ec0 Hv. unfold slot_inv in Hsi. rewrite Hnr in Hsi.
    destruct (sunion_shape _ _ _ _ Hsi) as (Eq & Eo & Hg).
    pose proof (unions_shape_nth' E fs unions 0 g (case, cell) Hus Eu) as Hcs. cbn [plus] in Hcs.
    pose proof (VU g (case, cell) Eu) as Gcs.
    assert (Hc0 : (cell_shape shp f c0 = true /\ gcell (gd (data_total done)) f false c0 = true) \/ c0 = VWord 0).
    { destruct (negb (case =? 0) && negb ((case =? sm_tag sm) && ftype_eqb (f_type f) TMessage)) eqn:Ec.
      - destruct (find_field md case); inversion Ec0. right. reflexivity.
      - inversion Ec0; subst c0. apply andb_false_iff in Ec. destruct Ec as [Ec|Ec].
        + apply negb_false_iff in Ec. apply Z.eqb_eq in Ec. subst case.
          destruct (union_shape_inv E _ _ _ _ Hcs) as [[_ Hv0]|(f0 & Hf0 & Hid0 & _)]; [right; exact Hv0|].
          destruct (field_facts E EO d md Hmd f0 Hf0) as (_ & Hr0 & _). lia.
        + apply negb_false_iff in Ec. apply andb_true_iff in Ec. destruct Ec as [Ec1 Ec2]. apply Z.eqb_eq in Ec1. subst case.
          destruct (union_shape_inv E _ _ _ _ Hcs) as [[H0 _]|(f0 & Hf0 & Hid0 & _ & _ & Hc4)]; [lia|].
          destruct (gunion_inv _ _ _ _ _ Gcs) as [[H0 _]|(f1 & Hf1 & Hid1 & _ & _ & Hg4)]; [lia|].
          assert (f0 = f) by (apply (field_unique E md Dmd'); [assumption | assumption | lia]).
          assert (f1 = f) by (apply (field_unique E md Dmd'); [assumption | assumption | lia]).
          subst f0 f1. left. split; assumption. }
    pose proof (parse_required_good f sm c0 true v (data_total done) Hinf Hmok HlN Hdt0 Hc0 Hv) as G.
    unfold vinv. split; [|split; [|exact VK]].
    - intros j g0 x Hg0 Hx. destruct (Nat.eq_dec i j) as [<-|Hne].
      + pose proof (eq_trans (eq_sym Hs) Hx) as Heq. inversion Heq; subst x. exact I.
      + apply vslot_mono; [rewrite Ef; congruence | exact (VS j g0 x Hg0 Hx)].
    - intros g' cv Hg'. destruct (Nat.eq_dec g g') as [<-|Hne].
      + rewrite set_nth_at in Hg' by (rewrite Hun; exact Hg). inversion Hg'; subst cv.
        rewrite <- Hid. apply gunion_member; try assumption. cbn [data_total]. exact (gcell_arr _ _ _ G).
      + rewrite set_nth_other in Hg' by exact Hne. exact (UMono g' cv Hg'). }
  destruct (f_label f) eqn:El.
  - (* required *)
    destruct s as [h old|n0 c0 a0|g0]; try discriminate H.
    destruct (parse_required E usub f sm old true) as [v|e1] eqn:Ev; cbn [bind] in H; [|discriminate H].
    inversion H; subst m'. exact (One h old h eq_refl eq_refl v Ev).
  - (* optional *)
    destruct (f_oneof f) eqn:Eo.
    + destruct s as [h old|n0 c0 a0|g]; try discriminate H.
      destruct (nth_error unions g) as [[case cell]|] eqn:Eu; [|discriminate H].
      match type of H with bind ?X _ = _ => destruct X as [c0|e1] eqn:Ec0; cbn [bind] in H; [|discriminate H] end.
      destruct (parse_required E usub f sm c0 true) as [v|e1] eqn:Ev; cbn [bind] in H; [|discriminate H].
      inversion H; subst m'. exact (Uni eq_refl g case cell c0 v eq_refl Eu Ec0 Ev).
    + destruct s as [h old|n0 c0 a0|g]; try discriminate H.
      destruct (parse_required E usub f sm old true) as [v|e1] eqn:Ev; cbn [bind] in H; [|discriminate H].
      inversion H; subst m'. exact (One h old _ eq_refl eq_refl v Ev).
  - (* repeated *)
    assert (App : forall vs s', forallb (gcell (gd (data_total (sm :: done))) f true) vs = true ->
              append_elems s vs = Ok s' -> vslot (sm :: done) i f s').
    { intros vs s' Hvs Ha. unfold append_elems in Ha. destruct s as [h old|n c [l|]|g]; try discriminate Ha.
      - match type of Ha with (if ?c then _ else _) = _ => destruct c end; [|discriminate Ha]. inversion Ha; subst s'.
        cbn [vslot] in *. rewrite forallb_app, (gcells_mono E _ _ f true l Hle Vs), Hvs. reflexivity.
      - match type of Ha with (if ?c then _ else _) = _ => destruct c end; [|discriminate Ha]. inversion Ha; subst s'. exact I. }
    destruct (packed_arrival f (sm_wt sm)) eqn:Epa.
    + destruct (parse_packed f sm) as [vs|e1] eqn:Epp; cbn [bind] in H; [|discriminate H].
      destruct (append_elems s vs) as [s'|e1] eqn:Ea; cbn [bind] in H; [|discriminate H].
      inversion H; subst m'. apply SetSlot. apply (App vs s'); [|exact Ea].
      assert (Hscal : is_scalar (f_type f) = true).
      { unfold packed_arrival in Epa. apply andb_true_iff in Epa. destruct Epa as [_ Hpa]. apply orb_true_iff in Hpa.
        destruct Hpa as [Hpk|Hpk].
        - unfold field_ok in Hfok. rewrite Hpk in Hfok. rewrite !andb_true_iff in Hfok. destruct Hfok as [[_ [_ Hsc]] _]. exact Hsc.
        - unfold is_packable in Hpk. unfold is_scalar. destruct (f_type f); try reflexivity; cbn in Hpk; discriminate Hpk. }
      destruct (count_packed_elements (type_code (f_type f)) (sm_len sm - sm_pref sm) (skipn (Z.to_nat (sm_pref sm)) (sm_data sm)) 0) as [okc c] eqn:Ec.
      assert (Hpa' : packed_arrival f (sm_wt sm) = true).
      { unfold packed_arrival. exact Epa. }
      pose proof (Hpok i f Ef Hn ltac:(rewrite El; reflexivity) Hpa') as Hok'. rewrite Ec in Hok'. cbn [fst] in Hok'.
      destruct (parse_packed_words f sm okc c vs Hscal HB Hp Hl ltac:(lia) Ec Hok' Epp) as [_ Hvw].
      apply forallb_forall. intros v Hv. rewrite Forall_forall in Hvw. destruct (Hvw v Hv) as (w & ->).
      unfold gcell. unfold is_scalar in Hscal. destruct (f_type f); try discriminate Hscal; reflexivity.
    + destruct (parse_required E usub f sm (VWord 0) false) as [v|e1] eqn:Ev; cbn [bind] in H; [|discriminate H].
      destruct (append_elems s [v]) as [s'|e1] eqn:Ea; cbn [bind] in H; [|discriminate H].
      inversion H; subst m'. apply SetSlot. apply (App [v] s'); [|exact Ea].
      pose proof (parse_required_good f sm (VWord 0) false v (data_total done) Hinf Hmok HlN Hdt0 (or_intror eq_refl) Ev) as G.
      cbn [forallb data_total]. rewrite G. reflexivity.
  - (* implicit presence: as optional *)
    destruct (f_oneof f) eqn:Eo.
    + destruct s as [h old|n0 c0 a0|g]; try discriminate H.
      destruct (nth_error unions g) as [[case cell]|] eqn:Eu; [|discriminate H].
      match type of H with bind ?X _ = _ => destruct X as [c0|e1] eqn:Ec0; cbn [bind] in H; [|discriminate H] end.
      destruct (parse_required E usub f sm c0 true) as [v|e1] eqn:Ev; cbn [bind] in H; [|discriminate H].
      inversion H; subst m'. exact (Uni eq_refl g case cell c0 v eq_refl Eu Ec0 Ev).
    + destruct s as [h old|n0 c0 a0|g]; try discriminate H.
      destruct (parse_required E usub f sm old true) as [v|e1] eqn:Ev; cbn [bind] in H; [|discriminate H].
      inversion H; subst m'. exact (One h old _ eq_refl eq_refl v Ev).
Qed.

(* ---- all members, in arrival order *)
Lemma parse_members_good : forall rest done m m',
  rev done ++ rest = rev Ms -> pinv' done m -> vinv done m ->
  parse_members E usub md rest m = Ok m' -> pinv' (rev rest ++ done) m' /\ vinv (rev rest ++ done) m'.
Proof.
  induction rest as [|sm t IH]; intros done m m' Hsplit HP HV H; cbn [parse_members rev app] in *.
  - inversion H; subst m'. split; assumption.
  - assert (HinR : forall x, In x (rev done ++ sm :: t) -> In x Ms).
    { intros x Hx. rewrite Hsplit in Hx. apply in_rev. exact Hx. }
    assert (Hin : In sm Ms) by (apply HinR; apply in_or_app; right; left; reflexivity).
    assert (Hdone : forall x, In x done -> In x Ms).
    { intros x Hx. apply HinR. apply in_or_app. left. apply in_rev in Hx. exact Hx. }
    assert (Ht : forall x, In x t -> In x Ms).
    { intros x Hx. apply HinR. apply in_or_app. right. right. exact Hx. }
    assert (Htot : forall i, total md i (sm :: done) <= total md i Ms).
    { intros i. rewrite <- (total_rev md i Ms), <- Hsplit, total_app, total_rev. cbn [total].
      pose proof (total_nonneg E parse_tag_range_bytes count_packed_elements_le_len parse_packed_words parse_packed_err N HN usub Husub d md Ms HMs HMsN t i Ht). lia. }
    destruct (parse_member E usub md sm m) as [m1|e1] eqn:E1; cbn [bind] in H; [|discriminate H].
    pose proof (step' sm done m Hin Hdone Htot HP) as HP1. rewrite E1 in HP1. cbn [okres] in HP1.
    pose proof (parse_member_good sm done m m1 Hin Hdone HP HV E1) as HV1.
    replace ((rev t ++ [sm]) ++ done) with (rev t ++ sm :: done) by (rewrite <- app_assoc; reflexivity).
    apply (IH (sm :: done) m1 m'); [cbn [rev]; rewrite <- app_assoc; exact Hsplit | exact HP1 | exact HV1 | exact H].
Qed.

(* ---- allocation after the scan *)
Lemma alloc_vinv : forall slots bm ss, scan_slots md slots Ms -> alloc_slots fs bm slots = Ok ss ->
  vinv [] (Msg d ss (repeat (0, VWord 0) nun) []).
Proof.
  intros slots bm ss (HSl & HS) Ha.
  assert (HR : forall i f s, nth_error fs i = Some f -> nth_error slots i = Some s -> label_eqb (f_label f) LRepeated = true ->
            exists n c a, s = SRep n c a).
  { intros i f s Hf Hs Hr. rewrite (HS i f Hf), Hr in Hs. inversion Hs. eauto. }
  pose proof (alloc_slots_okres fs bm slots HSl HR) as Hok. rewrite Ha in Hok. cbn [okres] in Hok. destruct Hok as [Hl Hss].
  unfold vinv. split; [|split; [|reflexivity]].
  - intros i f s' Hf Hs'. destruct (Hss i f _ Hf (HS i f Hf)) as (s1 & Hs1 & Hal).
    pose proof (eq_trans (eq_sym Hs') Hs1) as Heq. inversion Heq; subst s1. clear Heq.
    assert (Hinf : In f fs) by (eapply nth_error_In; exact Hf).
    destruct (field_facts E EO d md Hmd f Hinf) as (Hfok & _ & _).
    destruct (label_eqb (f_label f) LRepeated) eqn:Er.
    + assert (El : f_label f = LRepeated) by (destruct (f_label f); try discriminate Er; reflexivity).
      unfold alloc_slot in Hal. rewrite El in Hal. destruct (total md i Ms =? 0); inversion Hal; subst s'; [exact I | reflexivity].
    + assert (s' = init_slot f).
      { unfold alloc_slot in Hal. destruct (f_label f); try discriminate Er.
        - destruct (f_default f); [|destruct (nth i bm false)]; inversion Hal; reflexivity.
        - inversion Hal; reflexivity.
        - inversion Hal; reflexivity. }
      subst s'. unfold init_slot. destruct (f_label f); try discriminate Er;
        (destruct (f_quant f); [|  |exact I| ]; cbn [vslot]; (split; [exact (init_cell_good _ _ f Hfok) | intros _ (x & [] & _)])).
  - intros g cv Hg. apply nth_error_In in Hg. apply repeat_spec in Hg. subst cv. reflexivity.
Qed.

(* ---- at the end: the result is good with bound N *)
Lemma vinv_good : forall m, pinv' Ms m -> vinv Ms m ->
  (forall i f, nth_error fs i = Some f -> must_appear f = true -> exists sm, In sm Ms /\ sm_field sm = Some i) ->
  gd N m = true.
Proof.
  intros [d' slots unions unk] (Hd & Hlen & Hslots & Hun & Hus) (VS & VU & VK) Hreq. subst d'.
  assert (HdN : data_total Ms <= N) by lia.
  cbn [good_msg]. rewrite Hmd. rewrite VK, andb_true_r. apply andb_true_iff. split.
  - apply all2_pointwise. intros i f s Hf Hs. pose proof (VS i f s Hf Hs) as V.
    assert (Hinf : In f fs) by (eapply nth_error_In; exact Hf).
    destruct (field_facts E EO d md Hmd f Hinf) as (Hfok & _ & _).
    destruct (Hslots i f Hf) as (s1 & Hs1 & Hsi). pose proof (eq_trans (eq_sym Hs) Hs1) as Heq. inversion Heq; subst s1. clear Heq.
    destruct s as [h v|n c arr|g]; cbn [gslot vslot] in *; [| |reflexivity].
    + destruct V as [V1 V2]. rewrite (gcell_mono E _ N f false v HdN V1). cbn [andb].
      destruct (label_eqb (f_label f) LRequired) eqn:Er; [|reflexivity].
      destruct (f_default f) as [dd|] eqn:Edf.
      * pose proof (field_ok_dflt _ f Hfok) as Hdd. rewrite Edf in Hdd.
        unfold req_set. unfold gcell in V1. destruct (f_type f); try reflexivity.
        -- destruct v as [|[| |s0]| |]; try reflexivity. rewrite Edf in V1. rewrite andb_false_r in V1. discriminate V1.
        -- destruct dd; discriminate Hdd.
      * apply (V2 eq_refl). apply (Hreq i f Hf). unfold must_appear. rewrite Er, Edf. reflexivity.
    + unfold slot_inv in Hsi. destruct (label_eqb (f_label f) LRepeated) eqn:Er.
      2:{ apply srep_shape in Hsi. rewrite Hsi in Er. discriminate Er. }
      destruct Hsi as (n' & arr' & Heq & Harr). inversion Heq; subst n' c arr'.
      pose proof (total_bound E md parse_tag_range_bytes count_packed_elements_le_len Ms i HMs ltac:(lia)) as Hb.
      destruct arr as [l|].
      * destruct Harr as (H1 & H2 & _). rewrite (gcells_mono E _ N f true l HdN V). rewrite andb_true_r. lia.
      * destruct Harr as [-> _]. rewrite andb_true_r. pose proof (data_total_nonneg Ms). lia.
  - apply gunions_pointwise. intros g cv Hg. cbn [plus]. exact (gunion_mono E _ N fs g cv HdN (VU g cv Hg)).
Qed.

End PV.

(* ================================================================== *)
(* Part 6.  The fuel induction and the theorems                        *)

Section Top.
Variable E : env.
Hypothesis EO : env_ok E = true.

Theorem unpack_good : forall fuel d data m,
  bytes data -> Mem.zlen data < 2147483648 -> (d < length E)%nat -> (length data < fuel)%nat ->
  unpack E fuel d data = Ok m -> good_msg E (Mem.zlen data) m = true.
Proof.
  induction fuel as [|k IH]; intros d data m HB HN Hd Hf H; [lia|].
  cbn [unpack] in H. destruct (nth_error E d) as [md|] eqn:Hmd; [|discriminate H].
  pose proof (env_desc_ok E EO d md Hmd) as D. cbv zeta in H.
  fold (st_init d md data) in H.
  destruct (scan_loop (S (length data)) md (st_init d md data)) as [st|e] eqn:Es; cbn [bind] in H; [|discriminate H].
  destruct (max_members <? Mem.zlen (st_members st)); [discriminate H|].
  destruct (alloc_slots (md_fields md) (st_bitmap st) (st_slots st)) as [slots|e] eqn:Ea; cbn [bind] in H; [|discriminate H].
  pose proof (init_scan_inv E d md data HB) as I0.
  destruct (scan_loop_inv' E md D parse_tag_range_bytes count_packed_elements_le_len (Mem.zlen data) _ _ st ltac:(lia) Es I0)
    as ((HB' & HL & HM & HDt & HSl) & Hat).
  assert (HX : Forall (member_extra md) (st_members st)).
  { apply (scan_loop_extra E md (Mem.zlen data) D ltac:(lia) _ _ _ Es I0). constructor. }
  cbn [init_msg m_unions] in H.
  assert (HMsN : data_total (st_members st) + Z.of_nat (length (st_members st)) <= Mem.zlen data).
  { rewrite Hat in HDt. change (Mem.zlen (@nil Z)) with 0 in HDt. lia. }
  assert (Husub : forall d' payload, bytes payload -> Mem.zlen payload < Mem.zlen data -> (d' < length E)%nat ->
            okres (fun m' => shape_msg E m' = true /\ m_desc m' = d') (unpack E k d' payload)).
  { intros d' payload HBp Hlp Hd'. apply (unpack_safe E EO); try assumption; unfold Mem.zlen in *; lia. }
  assert (HusubG : forall d' payload m', bytes payload -> Mem.zlen payload < Mem.zlen data -> (d' < length E)%nat ->
            unpack E k d' payload = Ok m' -> good_msg E (Mem.zlen payload) m' = true).
  { intros d' payload m' HBp Hlp Hd' Hu. apply (IH d' payload m'); try assumption; unfold Mem.zlen in *; lia. }
  pose proof (alloc_pinv E EO parse_tag_range_bytes count_packed_elements_le_len parse_packed_words parse_packed_err
                (Mem.zlen data) HN (unpack E k) Husub d md Hmd (st_members st) HM HMsN (st_slots st) (st_bitmap st) HSl) as HP0.
  rewrite Ea in HP0. cbn [okres] in HP0.
  pose proof (alloc_vinv E EO d md Hmd (st_members st) (st_slots st) (st_bitmap st) slots HSl Ea) as HV0.
  destruct (parse_members_good E EO (Mem.zlen data) HN (unpack E k) Husub HusubG d md Hmd (st_members st) HM HMsN HX
              (rev (st_members st)) [] _ m ltac:(reflexivity) HP0 HV0 H) as [HPf HVf].
  rewrite rev_involutive, app_nil_r in HPf, HVf.
  apply (vinv_good E EO (Mem.zlen data) HN (unpack E k) Husub HusubG d md Hmd (st_members st) HM HMsN m HPf HVf).
  intros i f Hn Hm.
  destruct (scan_loop_track md _ _ _ Es (init_track d md data)) as [(_ & I2 & _) _].
  apply I2. exact (alloc_slots_required _ _ _ _ Ea i f Hn Hm).
Qed.

End Top.

(* whatever the parser accepts is well-formed, accepted by the validity check, and -- when the unknown field numbers
   it retained are valid protobuf field numbers -- well-typed *)
Theorem unpack_result_good : forall (E : env) d data m,
  env_ok E = true -> bytes data -> Mem.zlen data < 268435456 -> (d < length E)%nat ->
  unpack_top E d data = Ok m ->
  wf_msg E m = true /\ check_msg E m = Ok true /\ (unk_small E m = true -> typed_msg E m = true).
Proof.
  intros E d data m EO HB HN Hd H.
  pose proof (unpack_top_safe E EO d data HB ltac:(lia) Hd) as HS. rewrite H in HS. cbn [okres] in HS. destruct HS as [HS _].
  unfold unpack_top in H.
  pose proof (unpack_good E EO (S (length data)) d data m HB ltac:(lia) Hd ltac:(lia) H) as HG.
  exact (final_P E EO (Mem.zlen data) HN m HS HG).
Qed.

Corollary accepted_input_is_stable : forall (E : env) d data m,
  env_ok E = true -> bytes data -> Mem.zlen data < 268435456 -> (d < length E)%nat ->
  unpack_top E d data = Ok m -> unk_small E m = true ->
  exists b, pack_msg E m = Ok b /\
            (Z.of_nat (length b) <= max_input ->
             unpack_top E d b = Ok (wnorm_msg E m) /\ pack_msg E (wnorm_msg E m) = Ok b).
Proof.
  intros E d data m EO HB HN Hd H Hu.
  destruct (unpack_result_good E d data m EO HB HN Hd H) as (Hwf & Hck & Hty).
  pose proof (unpack_top_safe E EO d data HB ltac:(lia) Hd) as HS. rewrite H in HS. cbn [okres] in HS. destruct HS as [_ Hdm].
  destruct (size_pack_chunks_agree E m Hwf) as (b & Hp & _).
  exists b. split; [exact Hp|]. intros Hl. split.
  - rewrite <- Hdm. exact (checked_typed_roundtrip E m b EO Hwf (Hty Hu) Hck Hp Hl).
  - rewrite (pack_wnorm E EO m). exact Hp.
Qed.

(* ================================================================== *)
(* Non-vacuity, over Examples.ex_env                                   *)

(* an accepted input: required int32 1 = 150; packed repeated uint32 3 = [1; 2]; sub-message 7 = { field 1 = 1 } *)
Example ex_accepted :
  exists m, unpack_top ex_env 0 [8; 150; 1; 26; 2; 1; 2; 58; 2; 8; 1] = Ok m /\
            wf_msg ex_env m = true /\ check_msg ex_env m = Ok true /\ unk_small ex_env m = true /\ typed_msg ex_env m = true.
Proof. eexists. split; [vm_compute; reflexivity|]. vm_compute. repeat split; reflexivity. Qed.

(* an accepted input with the 5-byte key 128 128 128 128 16 (field number 2^29, wire type 0): the parser retains the
   unknown field; the result is well-formed and check-accepted, but NOT typed -- and unk_small says so *)
Example ex_big_unknown :
  exists m, unpack_top ex_env 0 [8; 1; 128; 128; 128; 128; 16; 0] = Ok m /\
            m_unk m = [ {| u_tag := 536870912; u_wt := 0; u_data := [0] |} ] /\
            wf_msg ex_env m = true /\ check_msg ex_env m = Ok true /\ unk_small ex_env m = false /\ typed_msg ex_env m = false.
Proof. eexists. split; [vm_compute; reflexivity|]. vm_compute. repeat split; reflexivity. Qed.

(* the theorem and the corollary instantiated on the first input *)
Example ex_theorem_applies :
  forall m, unpack_top ex_env 0 [8; 150; 1; 26; 2; 1; 2; 58; 2; 8; 1] = Ok m ->
  wf_msg ex_env m = true /\ check_msg ex_env m = Ok true /\ (unk_small ex_env m = true -> typed_msg ex_env m = true).
Proof.
  intros m H. apply (unpack_result_good ex_env 0%nat [8; 150; 1; 26; 2; 1; 2; 58; 2; 8; 1] m ex_env_ok); try exact H.
  - unfold bytes. repeat constructor; lia.
  - vm_compute. reflexivity.
  - vm_compute. lia.
Qed.

(* What a canonical in-memory message MEANS on the wire: the list of records (field number, payload; Spec/WireMsg.v)
   a conforming reader must find in its serialisation -- every present field in ascending field-number order, the
   elements of a repeated field one record each or, when the field is declared packed, all in one length-delimited
   record, the selected member of each oneof, then the retained unknown fields in their order.  Stated with the
   primitives of Spec/Wire.v (varint, zig-zag, sign extension, little-endian), not with the C encoders.
   Definitions only; the theorem (Proofs/WholeMsg.v, Props/Properties_C03.v): the reference reader of Spec/WireMsg.v
   reads the bytes protobuf_c_message_pack writes for a canonical message as exactly these records. *)
From Coq Require Import ZArith List Bool.
From PBC Require Import Base.CInt Spec.Wire Spec.WireMsg Impl.Desc Impl.Mem Impl.Enc Impl.Pack Impl.Unpack Impl.Canon.
Import ListNotations.
Local Open Scope Z_scope.

(* a scalar cell holding the raw bits w *)
Definition scalar_payload (t : ftype) (w : Z) : payload :=
  match t with
  | TSint32 => PVar (zigzag 32 (s32 w))
  | TEnum | TInt32 => PVar (sext32 (u32 w))      (* negatives are sign-extended to 64 bits *)
  | TUint32 => PVar (u32 w)
  | TSint64 => PVar (zigzag 64 (s64 w))
  | TInt64 | TUint64 => PVar (u64 w)
  | TSfixed32 | TFixed32 | TFloat => PI32 (u32 w)
  | TSfixed64 | TFixed64 | TDouble => PI64 (u64 w)
  | TBool => PVar (if s32 w =? 0 then 0 else 1)
  | TString | TBytes | TMessage => PLen []
  end.

Section Denote.
Variable E : env.

(* the serialisation of a sub-message is the payload of its record; the theorem applies to it in turn *)
Definition sub_bytes (m : msg) : list Z := match pack_msg E m with Ok b => b | Err _ => [] end.

(* a present value of field f *)
Definition cell_payload (f : field) (v : sval) : payload :=
  match f_type f, v with
  | TString, VStr (PHeap s) => PLen s
  | TBytes, VBytes _ (PHeap s) => PLen s
  | TBytes, VBytes _ PNull => PLen []
  | TMessage, VMsg (Some m) => PLen (sub_bytes m)
  | t, VWord w => scalar_payload t w
  | _, _ => PLen []
  end.

Definition one (f : field) (v : sval) : list wrec := [(f_id f, cell_payload f v)].

(* absent = the member still holds what the initialiser put there *)
Definition is_init (f : field) (v : sval) : bool := sval_eqb_shallow v (init_cell f).

Definition slot_records (unions : list (Z * sval)) (f : field) (s : slot) : list wrec :=
  match s with
  | SOne has v =>
      match f_label f with
      | LRequired => one f v
      | LOptional => match f_quant f with
                     | QHas => if has =? 0 then [] else one f v
                     | _ => if is_init f v then [] else one f v
                     end
      | LNone => if is_init f v then [] else one f v
      | LRepeated => []
      end
  | SRep _ _ None => []
  | SRep _ _ (Some l) =>
      if f_packed f
      then [(f_id f, PLen (concat (map (fun v => enc_payload (cell_payload f v)) l)))]
      else map (fun v => (f_id f, cell_payload f v)) l
  | SUnion g =>
      with_nth (fun cv : Z * sval => if fst cv =? f_id f then one f (snd cv) else []) [] unions g
  end.

Fixpoint known_records (unions : list (Z * sval)) (fs : list field) (ss : list slot) : list wrec :=
  match fs, ss with
  | f :: fs', s :: ss' => slot_records unions f s ++ known_records unions fs' ss'
  | _, _ => []
  end.

(* a retained unknown field: number, and the payload its bytes (possibly a padded varint) denote *)
Definition unk_record (u : ufield) : wrec :=
  (u_tag u,
   if u_wt u =? 0 then PVar (varint_val (u_data u) mod two64)
   else if u_wt u =? 1 then PI64 (le_val (u_data u))
   else if u_wt u =? 5 then PI32 (le_val (u_data u))
   else match take_varint 5 (u_data u) with
        | Some (_, body) => PLen body
        | None => PLen []
        end).

Definition records (m : msg) : list wrec :=
  match m with
  | Msg d slots unions unk =>
      match nth_error E d with
      | None => []
      | Some md => known_records unions (md_fields md) slots ++ map unk_record unk
      end
  end.

End Denote.

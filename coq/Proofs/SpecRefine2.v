(* Refinement of the specification-level parser, part 2: records and the scan.
   A record the reference reader [read_raw_rec 5] delimits is read by the scanner ([Records.scan_pure]) as the member
   [sm_of md r]; the whole input is a concatenation of such records, so the scanning loop succeeds and records
   the members [map (sm_of md) rs] ([Records.scan_records]). *)
From Coq Require Import ZArith List Bool Lia ZifyBool.
From PBC Require Import Base.CInt Base.Bits Base.Bits2 Gen.LeafC Spec.Wire Spec.WireMsg Spec.WireRaw
     Impl.Desc Impl.Mem Impl.Enc Impl.WF Impl.Unpack Impl.Canon Impl.SpecParse Proofs.SpecRefine1.
From PBC Require Proofs.LeafSafe Proofs.LeafDec Proofs.PackedCount Proofs.PackedDec Proofs.ScanRec Proofs.ScanCount
     Proofs.Records Proofs.TagRange Proofs.MsgRT4 Proofs.MergeSafe Proofs.Required Proofs.Reorder Proofs.MemberCount.
Import ListNotations.
Local Open Scope Z_scope.

Ltac Zify.zify_post_hook ::= Z.div_mod_to_equations.

Local Notation bytes := LeafSafe.bytes.

(* the member the scanner records for a record *)
Definition pref_of (r : rawrec) : Z :=
  match rr_pay r with PLen a => Mem.zlen (rr_raw r) - Mem.zlen a | _ => 0 end.

Definition sm_of (md : mdesc) (r : rawrec) : smember :=
  {| sm_tag := rr_num r; sm_wt := wt_of (rr_pay r); sm_field := find_field md (rr_num r);
     sm_len := Mem.zlen (rr_raw r); sm_pref := pref_of r; sm_data := rr_raw r |}.

Lemma wt_of_range : forall p, 0 <= wt_of p < 8.
Proof. intros [v|v|a|v]; cbn [wt_of]; lia. Qed.

Lemma rec_wf_len : forall r, rec_wf r -> 1 <= Mem.zlen (rr_raw r).
Proof.
  intros r (_ & _ & Hp). destruct (rr_pay r) as [v|v|a|v].
  - destruct Hp as (W & _). pose proof (wfv_nonempty _ W). unfold Mem.zlen. lia.
  - destruct Hp as (L & _). unfold Mem.zlen. lia.
  - destruct Hp as (praw & Er & W & _). rewrite Er, zlen_app. pose proof (wfv_nonempty _ W). unfold Mem.zlen. lia.
  - destruct Hp as (L & _). unfold Mem.zlen. lia.
Qed.

Lemma rec_wf_pref : forall r, rec_wf r -> 0 <= pref_of r <= Mem.zlen (rr_raw r).
Proof.
  intros r Hwf. pose proof (rec_wf_len r Hwf) as Hl. destruct Hwf as (_ & _ & Hp). unfold pref_of.
  destruct (rr_pay r) as [v|v|a|v]; try lia.
  destruct Hp as (praw & Er & W & _). rewrite Er, zlen_app. pose proof (zlen_nonneg _ a). pose proof (zlen_nonneg _ praw). lia.
Qed.

(* the payload of a length-delimited record, as the parser finds it in the member *)
Lemma rec_wf_payload : forall r a, rec_wf r -> rr_pay r = PLen a ->
  skipn (Z.to_nat (pref_of r)) (rr_raw r) = a /\ Mem.zlen (rr_raw r) - pref_of r = Mem.zlen a /\ bytes a.
Proof.
  intros r a (_ & HB & Hp) Ea. unfold pref_of. rewrite Ea in *.
  destruct Hp as (praw & Er & W & _). rewrite Er in *. rewrite zlen_app.
  replace (Mem.zlen praw + Mem.zlen a - Mem.zlen a) with (Mem.zlen praw) by lia.
  split; [apply skipn_zlen_app|]. split; [lia|]. apply bytes_app_inv in HB. exact (proj2 HB).
Qed.

(* delimiting the payload *)
Lemma payload_lp : forall r rest, rec_wf r -> Mem.zlen (rr_raw r ++ rest) < 2147483648 ->
  (if wt_of (rr_pay r) =? WT_VARINT then
     match varint_end (rr_raw r ++ rest) 10 with
     | Some i => Ok (i + 1, 0)
     | None => Err EFail
     end
   else if wt_of (rr_pay r) =? WT_64BIT then (if Mem.zlen (rr_raw r ++ rest) <? 8 then Err EFail else Ok (8, 0))
   else if wt_of (rr_pay r) =? WT_LEN then
     let '(l, pref) := scan_length_prefixed_data (Mem.zlen (rr_raw r ++ rest)) (rr_raw r ++ rest) 0 in
     if l =? 0 then Err EFail else Ok (l, pref)
   else if wt_of (rr_pay r) =? WT_32BIT then (if Mem.zlen (rr_raw r ++ rest) <? 4 then Err EFail else Ok (4, 0))
   else Err EFail) = Ok (Mem.zlen (rr_raw r), pref_of r).
Proof.
  intros r rest Hwf Hlen. pose proof Hwf as (_ & HB & Hp). unfold pref_of.
  pose proof (zlen_nonneg _ rest) as Hr0. rewrite zlen_app in Hlen.
  destruct (rr_pay r) as [v|v|a|v]; cbn [wt_of].
  - change (0 =? WT_VARINT) with true. cbv iota.
    destruct Hp as (W & L & _).
    rewrite (ScanRec.varint_end_spec (rr_raw r) rest 10 W L (bytes_in _ HB)).
    f_equal. f_equal. unfold Mem.zlen. lia.
  - change (1 =? WT_VARINT) with false. change (1 =? WT_64BIT) with true. cbv iota.
    destruct Hp as (L & _). rewrite zlen_app.
    destruct (Z.ltb_spec (Mem.zlen (rr_raw r) + Mem.zlen rest) 8) as [Hlt|_]; [unfold Mem.zlen in Hlt; lia|].
    f_equal. f_equal. unfold Mem.zlen. lia.
  - change (2 =? WT_VARINT) with false. change (2 =? WT_64BIT) with false. change (2 =? WT_LEN) with true. cbv iota.
    destruct Hp as (praw & Er & W & L & Hv). rewrite Er in *. rewrite <- app_assoc.
    apply bytes_app_inv in HB. destruct HB as [HBp HBa].
    rewrite !zlen_app in *. pose proof (zlen_nonneg _ a) as Ha0. pose proof (zlen_nonneg _ praw) as Hp0.
    rewrite (LeafDec.scan_len_spec praw (a ++ rest) _ 0 W L (bytes_in _ HBp))
      by (unfold Mem.zlen in *; lia).
    unfold LeafDec.scan_len_result. rewrite Hv. fold (Mem.zlen praw).
    destruct (Z.gtb_spec (Mem.zlen a) 2147483647) as [Hgt|_]; [lia|].
    rewrite u64_small by (unfold Mem.zlen in *; lia).
    destruct (Z.gtb_spec (Mem.zlen praw + Mem.zlen a) (Mem.zlen praw + (Mem.zlen a + Mem.zlen rest))) as [Hgt|_]; [lia|].
    pose proof (wfv_nonempty _ W) as L1.
    destruct (Z.eqb_spec (Mem.zlen praw + Mem.zlen a) 0) as [Hz|_]; [unfold Mem.zlen in Hz; lia|].
    f_equal. f_equal. lia.
  - change (5 =? WT_VARINT) with false. change (5 =? WT_64BIT) with false. change (5 =? WT_LEN) with false.
    change (5 =? WT_32BIT) with true. cbv iota.
    destruct Hp as (L & _). rewrite zlen_app.
    destruct (Z.ltb_spec (Mem.zlen (rr_raw r) + Mem.zlen rest) 4) as [Hlt|_]; [unfold Mem.zlen in Hlt; lia|].
    f_equal. f_equal. unfold Mem.zlen. lia.
Qed.

Section Rec.
Variable E : env.
Variable md : mdesc.
Hypothesis D : desc_ok (length E) md = true.
Notation fs := (md_fields md).

(* ---- the specification's lookup is the table lookup *)
Lemma field_index_from_some : forall l k num i, field_index_from k l num = Some i ->
  exists j f, i = (k + j)%nat /\ nth_error l j = Some f /\ f_id f = num.
Proof.
  induction l as [|f l IH]; intros k num i H; cbn [field_index_from] in H; [discriminate H|].
  destruct (Z.eqb_spec (f_id f) num) as [Heq|Hne].
  - inversion H; subst i. exists 0%nat, f. split; [lia|]. split; [reflexivity | exact Heq].
  - destruct (IH (S k) num i H) as (j & g & Hi & Hn & Hid). exists (S j), g. split; [lia|]. split; [exact Hn | exact Hid].
Qed.

Lemma field_index_from_none : forall l k num, field_index_from k l num = None ->
  existsb (Z.eqb num) (map f_id l) = false.
Proof.
  induction l as [|f l IH]; intros k num H; cbn [field_index_from] in H; [reflexivity|].
  cbn [map existsb]. destruct (Z.eqb_spec (f_id f) num) as [Heq|Hne]; [discriminate H|].
  rewrite (IH (S k) num H). destruct (Z.eqb_spec num (f_id f)); [congruence | reflexivity].
Qed.

Lemma field_index_find : forall num, 0 < num < 536870912 -> field_index md num = find_field md num.
Proof.
  intros num Hnum. unfold field_index. destruct (field_index_from 0 fs num) as [i|] eqn:Ei.
  - destruct (field_index_from_some fs 0 num i Ei) as (j & f & Hi & Hn & Hid). cbn [plus] in Hi. subst j.
    rewrite <- Hid. symmetry. exact (ScanRec.find_field_known (length E) md D i f Hn).
  - symmetry. apply (ScanRec.find_field_unknown (length E) md D num Hnum). exact (field_index_from_none fs 0 num Ei).
Qed.

Lemma find_field_nth : forall num i, 0 < num < 536870912 -> find_field md num = Some i ->
  exists f, nth_error fs i = Some f /\ f_id f = num.
Proof.
  intros num i Hnum H. rewrite <- (field_index_find num Hnum) in H. unfold field_index in H.
  destruct (field_index_from_some fs 0 num i H) as (j & f & Hi & Hn & Hid). cbn [plus] in Hi. subst j. eauto.
Qed.

(* the packed records of repeated fields have well-formed payloads *)
Definition rec_good (r : rawrec) : Prop :=
  forall i f bs, find_field md (rr_num r) = Some i -> nth_error fs i = Some f ->
    label_eqb (f_label f) LRepeated = true -> packed_arrival f WT_LEN = true -> rr_pay r = PLen bs ->
    exists vs, packed_elems (f_type f) bs = Some vs.

Lemma packed_arrival_wt : forall f wt, packed_arrival f wt = true -> wt = WT_LEN.
Proof. intros f wt H. unfold packed_arrival in H. apply andb_true_iff in H. destruct H as [H _]. lia. Qed.

(* ---- one record *)
Lemma raw_rec_scan : forall kraw r rest,
  rec_wf r -> rec_good r -> wfv kraw -> (length kraw <= 5)%nat -> bytes kraw ->
  varint_val kraw = rr_num r * 8 + wt_of (rr_pay r) ->
  Mem.zlen (kraw ++ rr_raw r ++ rest) < 2147483648 ->
  Records.scan_pure md (kraw ++ rr_raw r ++ rest) = Ok (sm_of md r, rest).
Proof.
  intros kraw r rest Hwf Hgood Wk Lk Bk Vk Hlen.
  pose proof Hwf as (Hnum & HB & Hp).
  pose proof (wt_of_range (rr_pay r)) as Hwt.
  pose proof (rec_wf_len r Hwf) as Hl1. pose proof (rec_wf_pref r Hwf) as Hpref.
  pose proof (zlen_nonneg _ rest) as Hr0. pose proof (zlen_nonneg _ kraw) as Hk0.
  pose proof (wfv_nonempty _ Wk) as Lk1.
  assert (Hlen' : Mem.zlen kraw + (Mem.zlen (rr_raw r) + Mem.zlen rest) < 2147483648) by (rewrite <- !zlen_app; exact Hlen).
  unfold Records.scan_pure. cbv zeta.
  assert (Etag : parse_tag_and_wiretype (Mem.zlen (kraw ++ rr_raw r ++ rest)) (kraw ++ rr_raw r ++ rest) 0 0 =
                 (Mem.zlen kraw, rr_num r, wt_of (rr_pay r))).
  { rewrite (LeafDec.parse_tag_spec kraw (rr_raw r ++ rest) _ 0 0 Wk Lk (bytes_in _ Bk)).
    - rewrite Vk. unfold Mem.zlen. f_equal; [f_equal|]; lia.
    - rewrite !zlen_app. unfold Mem.zlen in *. lia.
    - rewrite Vk. lia. }
  rewrite Etag.
  destruct (Z.eqb_spec (Mem.zlen kraw) 0) as [Hz|_]; [unfold Mem.zlen in Hz; lia|].
  rewrite skipn_zlen_app.
  replace (Mem.zlen (kraw ++ rr_raw r ++ rest) - Mem.zlen kraw) with (Mem.zlen (rr_raw r ++ rest)) by (rewrite !zlen_app; lia).
  assert (Hlen1 : Mem.zlen (rr_raw r ++ rest) < 2147483648) by (rewrite zlen_app; lia).
  (* the field record *)
  assert (Hfo : exists fo, match find_field md (rr_num r) with
                           | Some i => match nth_error fs i with Some f => Ok (Some f) | None => Err EOob end
                           | None => Ok None
                           end = Ok fo /\
                           match find_field md (rr_num r) with
                           | Some i => exists f, nth_error fs i = Some f /\ fo = Some f
                           | None => fo = None
                           end).
  { destruct (find_field md (rr_num r)) as [i|] eqn:Ef.
    - destruct (find_field_nth (rr_num r) i ltac:(lia) Ef) as (f & Hn & _). rewrite Hn. exists (Some f). split; [reflexivity|]. eauto.
    - exists None. split; reflexivity. }
  destruct Hfo as (fo & Efo & Hfo). rewrite Efo. cbn [bind].
  rewrite (payload_lp r rest Hwf Hlen1). cbn [bind].
  rewrite firstn_zlen_app, skipn_zlen_app.
  (* the validity test of a packed payload *)
  assert (Hchk : match fo with
                 | Some f =>
                     if label_eqb (f_label f) LRepeated then
                       if packed_arrival f (wt_of (rr_pay r)) then
                         let '(okc, count) := count_packed_elements (type_code (f_type f)) (Mem.zlen (rr_raw r) - pref_of r)
                                                (skipn (Z.to_nat (pref_of r)) (rr_raw r)) 0 in
                         if okc =? 0 then Err EFail else Ok tt
                       else Ok tt
                     else Ok tt
                 | None => Ok tt
                 end = Ok tt).
  { destruct fo as [f|]; [|reflexivity].
    destruct (label_eqb (f_label f) LRepeated) eqn:Er; [|reflexivity].
    destruct (packed_arrival f (wt_of (rr_pay r))) eqn:Epa; [|reflexivity].
    pose proof (packed_arrival_wt f _ Epa) as Ewt. rewrite Ewt in Epa.
    destruct (rr_pay r) as [v|v|a|v] eqn:Epay; try discriminate Ewt.
    destruct (find_field md (rr_num r)) as [i|] eqn:Ef; [|discriminate Hfo].
    destruct Hfo as (f' & Hn & Hf'). inversion Hf'; subst f'.
    destruct (Hgood i f a Ef Hn Er Epa Epay) as (vs & Hvs).
    destruct (rec_wf_payload r a Hwf Epay) as (Esk & Epl & HBa).
    rewrite Esk, Epl.
    destruct (packed_count (f_type f) a vs Hvs HBa ltac:(pose proof (zlen_nonneg _ a); lia)) as (okc & Ec & Hok).
    rewrite Ec. destruct (Z.eqb_spec okc 0) as [Hz|_]; [contradiction | reflexivity]. }
  rewrite Hchk. cbn [bind]. reflexivity.
Qed.

(* ---- all the records of a message: the input is a concatenation of scanner records *)
Lemma read_raw_recs_spec : forall fuel b rs, bytes b -> Mem.zlen b < 2147483648 ->
  read_raw_recs 5 fuel b = Some rs -> Forall rec_good rs ->
  Forall rec_wf rs /\
  (forall r, In r rs -> Mem.zlen (rr_raw r) < Mem.zlen b) /\
  exists prs, b = concat (map fst prs) /\ Forall (Records.rec_ok md) prs /\ map snd prs = map (sm_of md) rs.
Proof.
  induction fuel as [|k IH]; intros b rs HB Hlen H HG.
  - destruct b as [|x b]; cbn [read_raw_recs] in H; [|discriminate H]. inversion H; subst rs.
    split; [constructor|]. split; [intros r []|]. exists []. split; [reflexivity|]. split; [constructor | reflexivity].
  - destruct b as [|x b].
    { cbn [read_raw_recs] in H. inversion H; subst rs.
      split; [constructor|]. split; [intros r []|]. exists []. split; [reflexivity|]. split; [constructor | reflexivity]. }
    set (data := x :: b) in *.
    change (read_raw_recs 5 (S k) data) with
      (match read_raw_rec 5 data with
       | Some (r, rest) => match read_raw_recs 5 k rest with Some rs => Some (r :: rs) | None => None end
       | None => None
       end) in H.
    destruct (read_raw_rec 5 data) as [[r rest]|] eqn:Er; [|discriminate H].
    destruct (read_raw_recs 5 k rest) as [rs'|] eqn:Ers; [|discriminate H].
    inversion H; subst rs; clear H.
    inversion HG as [|? ? Hg HG']; subst.
    destruct (read_raw_rec_spec data r rest HB Er) as (Hwf & kraw & Eb & Wk & Lk & Bk & Vk & Brest).
    pose proof (wfv_nonempty _ Wk) as Lk1.
    assert (Hlb : Mem.zlen data = Mem.zlen kraw + (Mem.zlen (rr_raw r) + Mem.zlen rest)) by (rewrite Eb, !zlen_app; reflexivity).
    pose proof (zlen_nonneg _ rest) as Hr0. pose proof (zlen_nonneg _ (rr_raw r)) as Hw0.
    destruct (IH rest rs' Brest ltac:(unfold Mem.zlen in *; lia) Ers HG') as (HW & HL & prs & Erest & HF & Hm).
    split; [constructor; assumption|]. split.
    { intros r0 [<-|Hin]; [unfold Mem.zlen in *; lia|]. specialize (HL r0 Hin). unfold Mem.zlen in *. lia. }
    exists ((kraw ++ rr_raw r, sm_of md r) :: prs).
    split; [cbn [map concat fst]; rewrite <- Erest, <- app_assoc; exact Eb|].
    split; [|cbn [map snd]; rewrite Hm; reflexivity].
    constructor; [|exact HF]. unfold Records.rec_ok. cbn [fst snd].
    split; [destruct kraw; [cbn [length] in Lk1; lia | discriminate]|].
    destruct Hwf as (Hn & HBr & Hp).
    split; [apply bytes_app; assumption|].
    assert (Hwf : rec_wf r) by (split; [exact Hn | split; [exact HBr | exact Hp]]).
    pose proof (raw_rec_scan kraw r [] Hwf Hg Wk Lk Bk Vk) as Hs. rewrite app_nil_r in Hs. apply Hs.
    rewrite zlen_app. lia.
Qed.

End Rec.

(* ------------------------------------------------------------------ *)
(* the scanning loop                                                    *)
Section Scan.
Variable E : env.
Hypothesis EO : env_ok E = true.
Variable d : nat.
Variable md : mdesc.
Hypothesis Hmd : nth_error E d = Some md.
Notation fs := (md_fields md).

Lemma Dmd : desc_ok (length E) md = true.
Proof. exact (MergeSafe.env_desc_ok E EO d md Hmd). Qed.

Lemma scan_all : forall b rs, bytes b -> Mem.zlen b <= max_input -> read_raw 5 b = Some rs -> Forall (rec_good md) rs ->
  Forall rec_wf rs /\ (forall r, In r rs -> Mem.zlen (rr_raw r) < Mem.zlen b) /\
  exists st, scan_loop (S (length b)) md (Required.st_init d md b) = Ok st /\
             rev (st_members st) = map (sm_of md) rs /\
             ScanCount.scan_inv md (Mem.zlen b) st /\
             (max_members <? Mem.zlen (st_members st)) = false.
Proof.
  intros b rs HB Hlen H HG. unfold read_raw in H. unfold max_input in Hlen.
  destruct (read_raw_recs_spec E md Dmd (length b) b rs HB ltac:(lia) H HG) as (HW & HL & prs & Eb & HF & Hm).
  split; [exact HW|]. split; [exact HL|].
  destruct (Records.scan_records E EO d md prs Hmd HF ltac:(rewrite <- Eb; lia)) as (st & Hs & Hms).
  rewrite <- Eb in Hs. exists st. split; [exact Hs|]. split; [rewrite Hms; exact Hm|].
  split.
  - exact (proj1 (ScanCount.scan_loop_inv' E md Dmd TagRange.parse_tag_range_bytes PackedCount.count_packed_elements_le_len
                    (Mem.zlen b) _ _ st ltac:(lia) Hs (Reorder.init_scan_inv E d md b HB))).
  - apply (MemberCount.member_limit_ok _ md _ st Hs); [reflexivity|]. cbn [Required.st_init st_at]. unfold max_input. lia.
Qed.

End Scan.

(* protobuf_c_message_unpack and its helpers (scan, count, allocate, parse,
   merge), at the level of values: which message comes back, or failure.
   Allocation events are modelled separately (Impl/Alloc.v). *)
From Coq Require Import ZArith List Bool.
From PBC Require Import Base.CInt Gen.LeafC Impl.Desc Impl.Mem Impl.Enc.
Import ListNotations.
Local Open Scope Z_scope.

Record smember := {
  sm_tag : Z; sm_wt : Z;
  sm_field : option nat;       (* index into md_fields; None = unknown field *)
  sm_len : Z; sm_pref : Z;
  sm_data : list Z;            (* the sm_len bytes at tmp.data *)
}.

(* ---------- message_init (generated initialiser = generic initialiser, see C12) *)
Definition init_cell (f : field) : sval :=
  match f_type f with
  | TString => VStr (match f_default f with Some _ => PDef | None => PNull end)
  | TBytes => match f_default f with
              | Some (DBytes b) => VBytes (zlen b) PDef
              | _ => VBytes 0 PNull
              end
  | TMessage => VMsg None
  | _ => VWord (match f_default f with Some (DWord w) => w | _ => 0 end)
  end.

Definition init_slot (f : field) : slot :=
  match f_label f with
  | LRepeated => SRep 0 0 None
  | _ => match f_quant f with
         | QCase g => SUnion g
         | _ => SOne 0 (init_cell f)
         end
  end.

Definition init_msg (d : nat) (md : mdesc) : msg :=
  Msg d (map init_slot (md_fields md)) (repeat (0, VWord 0) (md_n_oneofs md)) [].

(* ---------- field lookup *)
Definition find_field (md : mdesc) (tag : Z) : option nat :=
  let r := int_range_lookup (md_n_ranges md) (md_ranges md) (s32 tag) in
  if r <? 0 then None else Some (Z.to_nat r).

(* ---------- scanning *)
(* the inline varint scan of the main loop: index of the first byte without
   the continuation bit among the first [max] bytes *)
Fixpoint varint_end (l : list Z) (max : nat) : option Z :=
  match max, l with
  | O, _ => None
  | S _, [] => None
  | S k, b :: t => if Z.land b 128 =? 0 then Some 0
                   else match varint_end t k with Some i => Some (i + 1) | None => None end
  end.

Record sstate := {
  st_at : list Z;               (* input from 'at' on; rem = its length *)
  st_last : option nat;         (* last_field (None = NULL) *)
  st_last_idx : nat;            (* last_field_index *)
  st_bitmap : list bool;        (* required_fields_bitmap, one entry per field *)
  st_members : list smember;    (* scanned members, most recent first *)
  st_slots : list slot;         (* rv's slots: the n_ counters are accumulated here *)
  st_nunk : Z;
}.

Definition is_packable (t : ftype) : bool := negb (is_packable_type (type_code t) =? 0).

Definition packed_arrival (f : field) (wt : Z) : bool :=
  (wt =? WT_LEN) && (f_packed f || is_packable (f_type f)).

Definition bump_count (ss : list slot) (i : nat) (c : Z) : res (list slot) :=
  match nth_error ss i with
  | Some (SRep n cap arr) => Ok (set_nth ss i (SRep (u64 (n + c)) cap arr))
  | _ => Err EDesc
  end.

Definition scan_one (md : mdesc) (st : sstate) : res sstate :=
  let at0 := st_at st in
  let rem := zlen at0 in
  let '(used, tag, wt) := parse_tag_and_wiretype rem at0 0 0 in
  if used =? 0 then Err EFail else
  (* field lookup, with the one-entry cache *)
  let cached := match st_last st with
                | None => false
                | Some li => match nth_error (md_fields md) li with
                             | Some lf => f_id lf =? tag
                             | None => false
                             end
                end in
  let '(fidx, last, last_idx, nunk) :=
    if cached then (st_last st, st_last st, st_last_idx st, st_nunk st)
    else match find_field md tag with
         | None => (None, st_last st, st_last_idx st, st_nunk st + 1)
         | Some i => (Some i, Some i, i, st_nunk st)
         end in
  do fo <- match fidx with
           | None => Ok None
           | Some i => match nth_error (md_fields md) i with
                       | Some f => Ok (Some f)
                       | None => Err EOob
                       end
           end;
  let bitmap := match fo with
                | Some f => if label_eqb (f_label f) LRequired
                            then set_nth (st_bitmap st) last_idx true else st_bitmap st
                | None => st_bitmap st
                end in
  let at1 := skipn (Z.to_nat used) at0 in
  let rem1 := rem - used in
  do lp <-
    (if wt =? WT_VARINT then
       match varint_end at1 10 with
       | Some i => Ok (i + 1, 0)
       | None => Err EFail
       end
     else if wt =? WT_64BIT then (if rem1 <? 8 then Err EFail else Ok (8, 0))
     else if wt =? WT_LEN then
       let '(l, pref) := scan_length_prefixed_data rem1 at1 0 in
       if l =? 0 then Err EFail else Ok (l, pref)
     else if wt =? WT_32BIT then (if rem1 <? 4 then Err EFail else Ok (4, 0))
     else Err EFail);
  let '(len, pref) := lp in
  let data := firstn (Z.to_nat len) at1 in
  let sm := {| sm_tag := tag; sm_wt := wt; sm_field := fidx;
               sm_len := len; sm_pref := pref; sm_data := data |} in
  do slots <-
    match fo, fidx with
    | Some f, Some i =>
        if label_eqb (f_label f) LRepeated then
          if packed_arrival f wt then
            let '(okc, count) := count_packed_elements (type_code (f_type f)) (len - pref)
                                   (skipn (Z.to_nat pref) data) 0 in
            if okc =? 0 then Err EFail else bump_count (st_slots st) i count
          else bump_count (st_slots st) i 1
        else Ok (st_slots st)
    | _, _ => Ok (st_slots st)
    end;
  Ok {| st_at := skipn (Z.to_nat len) at1; st_last := last; st_last_idx := last_idx;
        st_bitmap := bitmap; st_members := sm :: st_members st; st_slots := slots;
        st_nunk := nunk |}.

Fixpoint scan_loop (fuel : nat) (md : mdesc) (st : sstate) : res sstate :=
  match st_at st with
  | [] => Ok st
  | _ :: _ =>
      match fuel with
      | O => Err EFuel
      | S k => do st' <- scan_one md st; scan_loop k md st'
      end
  end.

(* ---------- after the scan: allocate arrays, check required fields *)
Definition alloc_slot (f : field) (present : bool) (s : slot) : res slot :=
  match f_label f with
  | LRepeated =>
      match s with
      | SRep n cap arr => if n =? 0 then Ok s else Ok (SRep 0 (u32 n) (Some []))
      | _ => Err EDesc
      end
  | LRequired =>
      match f_default f with
      | None => if present then Ok s else Err EFail
      | Some _ => Ok s
      end
  | _ => Ok s
  end.

Fixpoint alloc_slots (fs : list field) (bm : list bool) (ss : list slot) : res (list slot) :=
  match fs, ss with
  | [], _ => Ok ss
  | f :: fs', s :: ss' =>
      do s' <- alloc_slot f (hd false bm) s;
      do r <- alloc_slots fs' (tl bm) ss';
      Ok (s' :: r)
  | _ :: _, [] => Err EDesc
  end.

(* ---------- scalar decoding (parse_required_member, scalar cases) *)
Definition takewhile_nz (l : list Z) : list Z :=
  (fix go (l : list Z) := match l with [] => [] | b :: t => if b =? 0 then [] else b :: go t end) l.

Definition dec_scalar (t : ftype) (wt len : Z) (data : list Z) : res Z :=
  let need (w : Z) (v : Z) := if wt =? w then Ok v else Err EFail in
  match t with
  | TEnum | TInt32 => need WT_VARINT (u32 (parse_int32 (u32 len) data))
  | TUint32 => need WT_VARINT (parse_uint32 (u32 len) data)
  | TSint32 => need WT_VARINT (u32 (unzigzag32 (parse_uint32 (u32 len) data)))
  | TSfixed32 | TFixed32 | TFloat => need WT_32BIT (parse_fixed_uint32 data)
  | TInt64 | TUint64 => need WT_VARINT (parse_uint64 (u32 len) data)
  | TSint64 => need WT_VARINT (u64 (unzigzag64 (parse_uint64 (u32 len) data)))
  | TSfixed64 | TFixed64 | TDouble => need WT_64BIT (parse_fixed_uint64 data)
  | TBool => Ok (u32 (parse_boolean (u32 len) data))
  | TString | TBytes | TMessage => Err EDesc
  end.

(* is this pointer "== default_value" (which is NULL when there is no default) *)
Definition str_is_dflt (f : field) (p : ptr (list Z)) : bool :=
  match p with
  | PNull => match f_default f with None => true | Some _ => false end
  | PDef => true
  | PHeap _ => false
  end.

(* ---------- merge_messages (value level: the resulting latter message) *)
Section Merge.
Variable E : env.

Definition fields_of (d : nat) : res (list field) :=
  match nth_error E d with Some md => Ok (md_fields md) | None => Err EDesc end.

Definition merge_slot (rec : msg -> msg -> res msg) (f : field) (es ls : slot) : res slot :=
  match f_label f with
  | LRepeated =>
      match es, ls with
      | SRep ne _ ae, SRep nl cl al =>
          if ne >? 0 then
            if nl >? 0 then
              match ae, al with
              | Some le, Some ll =>
                  if (ne <=? zlen le) && (nl <=? zlen ll)
                  then Ok (SRep (ne + nl) (ne + nl)
                                (Some (firstn (Z.to_nat ne) le ++ firstn (Z.to_nat nl) ll)))
                  else Err EOob
              | _, _ => Err ENull
              end
            else Ok (SRep ne ne ae)
          else Ok ls
      | _, _ => Err EDesc
      end
  | LOptional | LNone =>
      match es, ls with
      | SUnion _, SUnion _ => Ok ls                  (* handled per union below *)
      | SOne eh ev, SOne lh lv =>
          match f_type f with
          | TMessage =>
              match ev, lv with
              | VMsg (Some em), VMsg (Some lm) => do m <- rec em lm; Ok (SOne lh (VMsg (Some m)))
              | VMsg (Some em), (VMsg None | VWord 0) => Ok (SOne lh ev)
              | (VMsg None | VWord 0), _ => Ok ls
              | _, _ => Err EConfused
              end
          | TString =>
              do ep <- as_str ev; do lp <- as_str lv;
              if negb (str_is_dflt f ep) && str_is_dflt f lp then Ok (SOne lh ev) else Ok ls
          | _ =>
              match f_quant f with
              | QNone =>
                  do ze <- zeroish f ev; do zl <- zeroish f lv;
                  if negb ze && zl then Ok (SOne lh ev) else Ok ls
              | _ => if negb (eh =? 0) && (lh =? 0) then Ok (SOne eh ev) else Ok ls
              end
          end
      | _, _ => Err EDesc
      end
  | LRequired =>
      (* a required sub-message is merged like an optional one ("fix:" commit 6504315); other required fields keep
         the latter value *)
      match f_type f with
      | TMessage =>
          match es, ls with
          | SOne eh ev, SOne lh lv =>
              match ev, lv with
              | VMsg (Some em), VMsg (Some lm) => do m <- rec em lm; Ok (SOne lh (VMsg (Some m)))
              | VMsg (Some em), (VMsg None | VWord 0) => Ok (SOne lh ev)
              | (VMsg None | VWord 0), _ => Ok ls
              | _, _ => Err EConfused
              end
          | _, _ => Err EDesc
          end
      | _ => Ok ls
      end
  end.

Definition merge_slots rec : list field -> list slot -> list slot -> res (list slot) :=
  fix go (fs : list field) (es ls : list slot) {struct ls} : res (list slot) :=
    match fs, es, ls with
    | [], _, _ => Ok ls
    | f :: fs', e :: es', l :: ls' =>
        do s <- merge_slot rec f e l;
        do r <- go fs' es' ls';
        Ok (s :: r)
    | _, _, _ => Err EDesc
    end.

Definition find_by_id (fs : list field) (id : Z) : option field :=
  find (fun f => f_id f =? id) fs.

Definition in_group (f : field) (g : nat) : bool :=
  match f_quant f with QCase g' => Nat.eqb g g' | _ => false end.

(* one oneof union: (case, cell) of the earlier and of the latter message *)
Definition merge_union (rec : msg -> msg -> res msg) (md : mdesc) (g : nat)
           (eu lu : Z * sval) : res (Z * sval) :=
  let '(ec, ev) := eu in
  let '(lc, lv) := lu in
  if lc =? 0 then
    if ec =? 0 then Ok lu
    else
      match find_field md ec with
      | None => Err EFail
      | Some i =>
          match nth_error (md_fields md) i with
          | None => Err EOob
          | Some f =>
              if negb (in_group f g) then Err EDesc
              else match f_type f with
                   | TMessage =>
                       match ev with
                       | VMsg (Some _) => Ok (ec, ev)
                       | VMsg None | VWord 0 => Ok lu
                       | _ => Err EConfused
                       end
                   | _ => Ok (ec, ev)
                   end
          end
      end
  else
    if lc =? ec then
      match find_by_id (filter (fun f => in_group f g) (md_fields md)) lc with
      | Some f =>
          match f_type f with
          | TMessage =>
              match ev, lv with
              | VMsg (Some em), VMsg (Some lm) => do m <- rec em lm; Ok (lc, VMsg (Some m))
              | VMsg (Some em), (VMsg None | VWord 0) => Ok (lc, ev)
              | (VMsg None | VWord 0), _ => Ok lu
              | _, _ => Err EConfused
              end
          | _ => Ok lu
          end
      | None => Ok lu
      end
    else Ok lu.

Definition merge_unions rec (md : mdesc) : nat -> list (Z * sval) -> list (Z * sval) -> res (list (Z * sval)) :=
  fix go (g : nat) (eu lu : list (Z * sval)) {struct lu} : res (list (Z * sval)) :=
    match eu, lu with
    | e :: eu', l :: lu' =>
        do u <- merge_union rec md g e l;
        do r <- go (S g) eu' lu';
        Ok (u :: r)
    | _, [] => Ok []
    | [], _ :: _ => Err EDesc
    end.

Fixpoint merge_messages (e l : msg) {struct l} : res msg :=
  match l with
  | Msg d ls lu lk =>
      match nth_error E d with
      | None => Err EDesc
      | Some md =>
          do ss <- merge_slots merge_messages (md_fields md) (m_slots e) ls;
          do us <- merge_unions merge_messages md 0%nat (m_unions e) lu;
          Ok (Msg d ss us (m_unk e ++ lk))
      end
  end.

End Merge.

(* ---------- parsing members *)
Section Parse.
Variable E : env.
(* protobuf_c_message_unpack on a sub-message's bytes (tied below by fuel) *)
Variable unpack_sub : nat -> list Z -> res msg.

(* parse_required_member: new contents of the cell *)
Definition parse_required (f : field) (sm : smember) (old : sval) (maybe_clear : bool) : res sval :=
  let payload := skipn (Z.to_nat (sm_pref sm)) (sm_data sm) in
  match f_type f with
  | TString =>
      if negb (sm_wt sm =? WT_LEN) then Err EFail
      else Ok (VStr (PHeap (takewhile_nz payload)))
  | TBytes =>
      if negb (sm_wt sm =? WT_LEN) then Err EFail
      else if sm_len sm >? sm_pref sm then Ok (VBytes (sm_len sm - sm_pref sm) (PHeap payload))
           else Ok (VBytes 0 PNull)
  | TMessage =>
      if negb (sm_wt sm =? WT_LEN) then Err EFail
      else
        do sub <- unpack_sub (f_sub f) payload;
        if maybe_clear then
          do o <- as_msg old;
          match o with
          | Some om => do m <- merge_messages E om sub; Ok (VMsg (Some m))
          | None => Ok (VMsg (Some sub))
          end
        else Ok (VMsg (Some sub))
  | t =>
      do w <- dec_scalar t (sm_wt sm) (sm_len sm) (sm_data sm);
      Ok (VWord w)
  end.

(* elements of a packed payload (parse_packed_repeated_member) *)
Fixpoint parse_packed_varints (fuel : nat) (t : ftype) (data : list Z) : res (list sval) :=
  match data with
  | [] => Ok []
  | _ :: _ =>
      match fuel with
      | O => Err EFuel
      | S k =>
          let s := scan_varint (u32 (zlen data)) data in
          if s =? 0 then Err EFail
          else
            do w <- dec_scalar t WT_VARINT s data;
            do r <- parse_packed_varints k t (skipn (Z.to_nat s) data);
            Ok (VWord w :: r)
      end
  end.

Fixpoint parse_packed_fixed (n : nat) (width : nat) (t : ftype) (wt : Z) (data : list Z) : res (list sval) :=
  match n with
  | O => Ok []
  | S k =>
      do w <- dec_scalar t wt (Z.of_nat width) (firstn width data);
      do r <- parse_packed_fixed k width t wt (skipn width data);
      Ok (VWord w :: r)
  end.

Definition parse_packed (f : field) (sm : smember) : res (list sval) :=
  let payload := skipn (Z.to_nat (sm_pref sm)) (sm_data sm) in
  let plen := sm_len sm - sm_pref sm in
  match f_type f with
  | TSfixed32 | TFixed32 | TFloat => parse_packed_fixed (Z.to_nat (plen / 4)) 4 (f_type f) WT_32BIT payload
  | TSfixed64 | TFixed64 | TDouble => parse_packed_fixed (Z.to_nat (plen / 8)) 8 (f_type f) WT_64BIT payload
  | TString | TBytes | TMessage => Err EAssert
  | t => parse_packed_varints (S (length payload)) t payload
  end.

Definition append_elems (s : slot) (vs : list sval) : res slot :=
  match s with
  | SRep n cap (Some l) =>
      if n + zlen vs <=? cap then Ok (SRep (n + zlen vs) cap (Some (l ++ vs))) else Err EOob
  | SRep n cap None => if zlen vs =? 0 then Ok s else Err ENull
  | _ => Err EDesc
  end.

Definition parse_member (md : mdesc) (sm : smember) (m : msg) : res msg :=
  let '(Msg d slots unions unk) := m in
  match sm_field sm with
  | None =>
      Ok (Msg d slots unions (unk ++ [{| u_tag := sm_tag sm; u_wt := sm_wt sm; u_data := sm_data sm |}]))
  | Some i =>
      match nth_error (md_fields md) i, nth_error slots i with
      | Some f, Some s =>
          match f_label f with
          | LRequired =>
              match s with
              | SOne h old => do v <- parse_required f sm old true;
                              Ok (Msg d (set_nth slots i (SOne h v)) unions unk)
              | _ => Err EDesc
              end
          | LOptional | LNone =>
              if f_oneof f then
                match s with
                | SUnion g =>
                    match nth_error unions g with
                    | None => Err EDesc
                    | Some (case, cell) =>
                        do cell0 <-
                          (if negb (case =? 0) &&
                              negb ((case =? sm_tag sm) && ftype_eqb (f_type f) TMessage)
                           then match find_field md case with
                                | None => Err EFail
                                | Some _ => Ok (VWord 0)
                                end
                           else Ok cell);
                        do v <- parse_required f sm cell0 true;
                        Ok (Msg d slots (set_nth unions g (sm_tag sm, v)) unk)
                    end
                | _ => Err EDesc
                end
              else
                match s with
                | SOne h old =>
                    do v <- parse_required f sm old true;
                    let h' := match f_quant f with QNone => h | _ => 1 end in
                    Ok (Msg d (set_nth slots i (SOne h' v)) unions unk)
                | _ => Err EDesc
                end
          | LRepeated =>
              if packed_arrival f (sm_wt sm) then
                do vs <- parse_packed f sm;
                do s' <- append_elems s vs;
                Ok (Msg d (set_nth slots i s') unions unk)
              else
                do v <- parse_required f sm (VWord 0) false;
                do s' <- append_elems s [v];
                Ok (Msg d (set_nth slots i s') unions unk)
          end
      | _, _ => Err EOob
      end
  end.

Fixpoint parse_members (md : mdesc) (sms : list smember) (m : msg) : res msg :=
  match sms with
  | [] => Ok m
  | sm :: t => do m' <- parse_member md sm m; parse_members md t m'
  end.

End Parse.

(* ---------- protobuf_c_message_unpack *)

(* The ScannedMember slab table of protobuf_c_message_unpack has 23 entries
   (slabs of 16, 32, 64, ... members): room for 16 * (2^23 - 1) members of
   one message; one more is "too many fields". *)
Definition max_members : Z := 134217712.
(* Every scanned member takes at least two input bytes, so an input of at
   most 2 * max_members + 1 bytes can never trip that limit. *)
Definition max_input : Z := 268435425.

Section Unpack.
Variable E : env.

Fixpoint unpack (fuel : nat) (d : nat) (data : list Z) : res msg :=
  match fuel with
  | O => Err EFuel
  | S k =>
      match nth_error E d with
      | None => Err EDesc
      | Some md =>
          let m0 := init_msg d md in
          let st0 := {| st_at := data;
                        st_last := match md_fields md with [] => None | _ => Some 0%nat end;
                        st_last_idx := 0%nat;
                        st_bitmap := repeat false (length (md_fields md));
                        st_members := []; st_slots := m_slots m0; st_nunk := 0 |} in
          do st <- scan_loop (S (length data)) md st0;
          (* "too many fields": the ScannedMember slab table has 23 entries, 16 * (2^23 - 1) members in all *)
          if max_members <? zlen (st_members st) then Err EFail else
          do slots <- alloc_slots (md_fields md) (st_bitmap st) (st_slots st);
          parse_members E (unpack k) md (rev (st_members st)) (Msg d slots (m_unions m0) [])
      end
  end.

Definition unpack_top (d : nat) (data : list Z) : res msg := unpack (S (length data)) d data.

End Unpack.

/* Leaf tie, implementation side: runs the small pure functions of protobuf-c.c
 * (reached by including the source) on the inputs of a case file and prints
 * one result line per case.  Format: see harness/ocaml/leaf_model.ml (same). */
#include <stdio.h>
#include <stdlib.h>
#include <string.h>
#include <stdint.h>
#include "protobuf-c.c"

static uint64_t hx(const char *s) { return strtoull(s, NULL, 16); }
static size_t unhex(const char *s, uint8_t *out) {
	size_t n = 0;
	if (s[0] == '-') return 0;
	while (s[0] && s[1]) { unsigned v; sscanf(s, "%2x", &v); out[n++] = v; s += 2; }
	return n;
}
static void phex(const uint8_t *b, size_t n) {
	if (n == 0) { printf("-"); return; }
	for (size_t i = 0; i < n; i++) printf("%02x", b[i]);
}
#define R(v) printf("%016llx\n", (unsigned long long)(uint64_t)(int64_t)(v))
#define RU(v) printf("%016llx\n", (unsigned long long)(uint64_t)(v))

int main(int argc, char **argv)
{
	FILE *f = fopen(argv[1], "r");
	char *line = NULL; size_t cap = 0; ssize_t len;
	if (!f) return 2;
	while ((len = getline(&line, &cap, f)) > 0) {
		char *tok[8]; int nt = 0;
		char *p = strtok(line, " \n");
		while (p && nt < 8) { tok[nt++] = p; p = strtok(NULL, " \n"); }
		if (nt == 0 || tok[0][0] == '#') continue;
		const char *fn = tok[0];
		uint8_t *buf = malloc(len + 64);   /* exact-size copies below */
		uint8_t out[32]; memset(out, 0, sizeof out);
		if (!strcmp(fn, "get_tag_size")) RU(get_tag_size((uint32_t) hx(tok[1])));
		else if (!strcmp(fn, "uint32_size")) RU(uint32_size((uint32_t) hx(tok[1])));
		else if (!strcmp(fn, "int32_size")) RU(int32_size((int32_t) hx(tok[1])));
		else if (!strcmp(fn, "zigzag32")) RU(zigzag32((int32_t) hx(tok[1])));
		else if (!strcmp(fn, "sint32_size")) RU(sint32_size((int32_t) hx(tok[1])));
		else if (!strcmp(fn, "uint64_size")) RU(uint64_size(hx(tok[1])));
		else if (!strcmp(fn, "zigzag64")) RU(zigzag64((int64_t) hx(tok[1])));
		else if (!strcmp(fn, "sint64_size")) RU(sint64_size((int64_t) hx(tok[1])));
		else if (!strcmp(fn, "get_type_min_size")) RU(get_type_min_size((ProtobufCType) hx(tok[1])));
		else if (!strcmp(fn, "sizeof_elt_in_repeated_array")) RU(sizeof_elt_in_repeated_array((ProtobufCType) hx(tok[1])));
		else if (!strcmp(fn, "is_packable_type")) R(is_packable_type((ProtobufCType) hx(tok[1])));
		else if (!strcmp(fn, "unzigzag32")) R(unzigzag32((uint32_t) hx(tok[1])));
		else if (!strcmp(fn, "unzigzag64")) R(unzigzag64(hx(tok[1])));
#define PK(name, T) else if (!strcmp(fn, #name)) { size_t n = name((T) hx(tok[1]), out); printf("%zu ", n); phex(out, n <= 32 ? n : 32); printf("\n"); }
		PK(uint32_pack, uint32_t) PK(int32_pack, uint32_t) PK(sint32_pack, int32_t)
		PK(uint64_pack, uint64_t) PK(sint64_pack, int64_t) PK(fixed32_pack, uint32_t)
		PK(fixed64_pack, uint64_t) PK(boolean_pack, protobuf_c_boolean) PK(tag_pack, uint32_t)
#define LD(name) else if (!strcmp(fn, #name)) { size_t n = unhex(tok[2], buf); uint8_t *d = malloc(n ? n : 1); memcpy(d, buf, n); R(name(hx(tok[1]), d)); free(d); }
		LD(max_b128_numbers) LD(parse_uint32) LD(parse_int32) LD(parse_uint64) LD(parse_boolean) LD(scan_varint)
#define DD(name) else if (!strcmp(fn, #name)) { size_t n = unhex(tok[1], buf); uint8_t *d = malloc(n ? n : 1); memcpy(d, buf, n); RU(name(d)); free(d); }
		DD(parse_fixed_uint32) DD(parse_fixed_uint64)
		else if (!strcmp(fn, "parse_tag_and_wiretype")) {
			size_t n = unhex(tok[2], buf); uint8_t *d = malloc(n ? n : 1); memcpy(d, buf, n);
			uint32_t tag = 0; uint8_t wt = 0;
			size_t r = parse_tag_and_wiretype(hx(tok[1]), d, &tag, &wt);
			printf("%zu %u %u\n", r, r ? tag : 0, r ? wt : 0); free(d);
		} else if (!strcmp(fn, "scan_length_prefixed_data")) {
			size_t n = unhex(tok[2], buf); uint8_t *d = malloc(n ? n : 1); memcpy(d, buf, n);
			size_t pref = 0;
			size_t r = scan_length_prefixed_data(hx(tok[1]), d, &pref);
			printf("%zu %zu\n", r, r ? pref : 0); free(d);
		} else if (!strcmp(fn, "count_packed_elements")) {
			size_t n = unhex(tok[3], buf); uint8_t *d = malloc(n ? n : 1); memcpy(d, buf, n);
			size_t cnt = 0;
			int r = count_packed_elements((ProtobufCType) hx(tok[1]), hx(tok[2]), d, &cnt);
			printf("%d %zu\n", r, r ? cnt : 0); free(d);
		} else if (!strcmp(fn, "int_range_lookup")) {
			/* tok[1] = n_ranges, tok[2] = start:idx,start:idx,... (n_ranges+1 entries, hex), tok[3] = value */
			unsigned nr = hx(tok[1]);
			ProtobufCIntRange *rs = malloc(sizeof(*rs) * (nr + 1));
			char *q = tok[2]; unsigned k = 0;
			while (k <= nr && q && *q) {
				rs[k].start_value = (int) strtoull(q, &q, 16); q++;
				rs[k].orig_index = (unsigned) strtoull(q, &q, 16); if (*q == ',') q++;
				k++;
			}
			R(int_range_lookup(nr, rs, (int) hx(tok[3])));
			free(rs);
		} else printf("ERR unknown %s\n", fn);
		free(buf);
	}
	return 0;
}

(* C04, order independence (member level): what protobuf_c_message_unpack returns depends on the scanned members only
   up to reordering of independent members -- members of different fields that do not share a oneof, or a known and an
   unknown member.  The relative order of the occurrences of one field, of the members of one oneof and of the unknown
   fields is what carries meaning on the wire (last one wins / concatenation / merge / retained order), everything else
   is irrelevant: the required-field bitmap is a set, the element counts are sums, and parse_member commutes on
   independent members (Proofs/Commute.v). *)
From Coq Require Import ZArith List Bool Lia ZifyBool.
From PBC Require Import Base.CInt Gen.LeafC Impl.Desc Impl.Mem Impl.Enc Impl.WF Impl.Unpack Impl.Canon
     Proofs.LeafSafe Proofs.ScanInv Proofs.Required Proofs.ScanCount Proofs.PackedCount Proofs.TagRange
     Proofs.MergeSafe Proofs.ParseSafe Proofs.Commute.
Import ListNotations.
Local Open Scope Z_scope.

Lemma reorder_in : forall md l l', reorder md l l' -> forall x, In x l <-> In x l'.
Proof.
  intros md l l' H. induction H as [l|l1 a b l2 Hi|l1 l2 l3 H1 IH1 H2 IH2]; intros x.
  - reflexivity.
  - rewrite !in_app_iff. cbn [In]. tauto.
  - rewrite IH1. apply IH2.
Qed.

Lemma reorder_total : forall md l l' i, reorder md l l' -> total md i l = total md i l'.
Proof.
  intros md l l' i H. induction H as [l|l1 a b l2 Hi|l1 l2 l3 H1 IH1 H2 IH2].
  - reflexivity.
  - rewrite !total_app. cbn [total]. lia.
  - congruence.
Qed.

Lemma reorder_length : forall md l l', reorder md l l' -> length l = length l'.
Proof.
  intros md l l' H. induction H as [l|l1 a b l2 Hi|l1 l2 l3 H1 IH1 H2 IH2]; [reflexivity| |congruence].
  rewrite !app_length. reflexivity.
Qed.

Lemma list_eq_nth : forall A (l l' : list A), (forall i, nth_error l i = nth_error l' i) -> l = l'.
Proof.
  induction l as [|x t IH]; intros [|y t'] H.
  - reflexivity.
  - specialize (H 0%nat). discriminate H.
  - specialize (H 0%nat). discriminate H.
  - pose proof (H 0%nat) as H0. cbn [nth_error] in H0. inversion H0; subst y. f_equal. apply IH. intros i. exact (H (S i)).
Qed.

Lemma alloc_slots_ext : forall fl bm bm' ss,
  (forall i f, nth_error fl i = Some f -> label_eqb (f_label f) LRequired = true -> nth i bm false = nth i bm' false) ->
  alloc_slots fl bm ss = alloc_slots fl bm' ss.
Proof.
  induction fl as [|a fl IH]; intros bm bm' ss H; [reflexivity|]. destruct ss as [|s ss]; [reflexivity|]. cbn [alloc_slots].
  assert (Ha : alloc_slot a (hd false bm) s = alloc_slot a (hd false bm') s).
  { unfold alloc_slot. destruct (f_label a) eqn:El; try reflexivity. destruct (f_default a); [reflexivity|].
    pose proof (H 0%nat a eq_refl) as H0. rewrite El in H0. specialize (H0 eq_refl).
    replace (hd false bm) with (nth 0 bm false) by (destruct bm; reflexivity).
    replace (hd false bm') with (nth 0 bm' false) by (destruct bm'; reflexivity). rewrite H0. reflexivity. }
  rewrite Ha. rewrite (IH (tl bm) (tl bm') ss); [reflexivity|].
  intros i f Hf Hr. pose proof (H (S i) f Hf Hr) as Hi.
  replace (nth i (tl bm) false) with (nth (S i) bm false) by (destruct bm; [destruct i; reflexivity | reflexivity]).
  replace (nth i (tl bm') false) with (nth (S i) bm' false) by (destruct bm'; [destruct i; reflexivity | reflexivity]).
  exact Hi.
Qed.

Section RO.
Variable E : env.
Hypothesis EO : env_ok E = true.

Lemma unpack_unfold : forall k d md data, nth_error E d = Some md ->
  unpack E (S k) d data =
  (do st <- scan_loop (S (length data)) md (st_init d md data);
   if max_members <? Mem.zlen (st_members st) then Err EFail else
   do slots <- alloc_slots (md_fields md) (st_bitmap st) (st_slots st);
   parse_members E (unpack E k) md (rev (st_members st)) (Msg d slots (repeat (0, VWord 0) (md_n_oneofs md)) [])).
Proof. intros k d md data H. cbn [unpack]. rewrite H. reflexivity. Qed.

Lemma init_scan_inv : forall d md data, bytes data -> scan_inv md (Mem.zlen data) (st_init d md data).
Proof.
  intros d md data HB. unfold scan_inv, st_init. cbn [st_at st_members st_slots init_msg m_slots data_total length].
  split; [exact HB|]. split.
  { unfold last_ok. cbn [st_last st_last_idx]. destruct (md_fields md) as [|f0 t]; [left; reflexivity|right].
    exists f0. split; reflexivity. }
  split; [constructor|]. split; [lia|]. split; [apply map_length|].
  intros i f Hfi. rewrite (map_nth_error init_slot i (md_fields md) Hfi). f_equal.
  destruct (label_eqb (f_label f) LRepeated) eqn:Er; [|reflexivity].
  unfold init_slot. destruct (f_label f); try discriminate Er. reflexivity.
Qed.

Lemma scan_slots_agree : forall md d slots ms u k, scan_slots md slots ms -> slots_agree md (Msg d slots u k).
Proof.
  intros md d slots ms u k (HL & HS) i f g Hf Hs0. cbn [m_slots] in Hs0.
  pose proof (eq_trans (eq_sym (HS i f Hf)) Hs0) as Hs. clear Hs0.
  destruct (label_eqb (f_label f) LRepeated) eqn:Er; [inversion Hs|].
  unfold init_slot in Hs. destruct (f_label f); try discriminate Er;
    destruct (f_quant f) as [| |g'|]; inversion Hs; reflexivity.
Qed.

Theorem unpack_reorder : forall d md data data' st st',
  nth_error E d = Some md ->
  bytes data -> bytes data' -> Mem.zlen data < 2147483648 -> length data' = length data ->
  scan_loop (S (length data)) md (st_init d md data) = Ok st ->
  scan_loop (S (length data')) md (st_init d md data') = Ok st' ->
  reorder md (rev (st_members st)) (rev (st_members st')) ->
  res_eq (unpack_top E d data) (unpack_top E d data').
Proof.
  intros d md data data' st st' Hmd HB HB' HN Hlen Hs Hs' HR.
  pose proof (env_desc_ok E EO d md Hmd) as D.
  unfold unpack_top. rewrite (unpack_unfold _ d md data Hmd), (unpack_unfold _ d md data' Hmd).
  rewrite Hs, Hs'. cbn [bind]. rewrite Hlen.
  (* the same number of members on both sides: the "too many fields" test decides alike *)
  assert (Hcnt : Mem.zlen (st_members st') = Mem.zlen (st_members st)).
  { unfold Mem.zlen. rewrite <- (rev_length (st_members st')), <- (rev_length (st_members st)).
    rewrite (reorder_length md _ _ HR). reflexivity. }
  rewrite Hcnt. destruct (max_members <? Mem.zlen (st_members st)); [exact I|].
  assert (HN' : Mem.zlen data' < 2147483648) by (unfold Mem.zlen in *; lia).
  destruct (scan_loop_inv' E md D parse_tag_range_bytes count_packed_elements_le_len (Mem.zlen data) _ _ st ltac:(lia) Hs (init_scan_inv d md data HB))
    as ((_ & _ & _ & _ & HSl) & _).
  destruct (scan_loop_inv' E md D parse_tag_range_bytes count_packed_elements_le_len (Mem.zlen data') _ _ st' ltac:(lia) Hs' (init_scan_inv d md data' HB'))
    as ((_ & _ & _ & _ & HSl') & _).
  destruct (scan_loop_track md _ _ st Hs (init_track d md data)) as ((_ & T2 & T3 & _) & TL).
  destruct (scan_loop_track md _ _ st' Hs' (init_track d md data')) as ((_ & T2' & T3' & _) & TL').
  cbn [st_init st_bitmap] in TL, TL'. rewrite repeat_length in TL, TL'.
  assert (Hin : forall x, In x (st_members st) <-> In x (st_members st')).
  { intros x. rewrite (in_rev (st_members st)), (in_rev (st_members st')). apply (reorder_in md _ _ HR). }
  assert (Htot : forall i, total md i (st_members st) = total md i (st_members st')).
  { intros i. rewrite <- (total_rev md i (st_members st)), <- (total_rev md i (st_members st')). apply reorder_total. exact HR. }
  (* same counters *)
  assert (Hslots : st_slots st' = st_slots st).
  { destruct HSl as (L1 & S1). destruct HSl' as (L2 & S2). apply list_eq_nth. intros i.
    destruct (nth_error (md_fields md) i) as [f|] eqn:Hf.
    - rewrite (S1 i f Hf), (S2 i f Hf), Htot. reflexivity.
    - apply nth_error_None in Hf.
      rewrite (proj2 (nth_error_None (st_slots st') i)) by lia. rewrite (proj2 (nth_error_None (st_slots st) i)) by lia. reflexivity. }
  (* same required-field bits *)
  assert (Hbm : alloc_slots (md_fields md) (st_bitmap st') (st_slots st') = alloc_slots (md_fields md) (st_bitmap st) (st_slots st)).
  { rewrite Hslots. apply alloc_slots_ext. intros i f Hf Hr.
    assert (Hi : (i < length (md_fields md))%nat) by (apply nth_error_Some; congruence).
    apply eq_true_iff_eq. split; intros Hb.
    - destruct (T2' i Hb) as (sm & Hsm & Hfi). apply (T3 sm i f (proj2 (Hin sm) Hsm) Hfi Hf Hr). lia.
    - destruct (T2 i Hb) as (sm & Hsm & Hfi). apply (T3' sm i f (proj1 (Hin sm) Hsm) Hfi Hf Hr). lia. }
  rewrite Hbm.
  destruct (alloc_slots (md_fields md) (st_bitmap st) (st_slots st)) as [slots0|e] eqn:Ea; cbn [bind res_eq]; [|exact I].
  apply parse_members_reorder; [|exact HR].
  apply (slots_agree_alloc md d (st_bitmap st) (st_slots st) slots0 (repeat (0, VWord 0) (md_n_oneofs md)) [] _ _ Ea).
  apply (scan_slots_agree md d _ (st_members st)). exact HSl.
Qed.

End RO.

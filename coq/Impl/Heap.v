(* Allocation-level model of protobuf_c_message_unpack, merge_messages and protobuf_c_message_free_unpacked
   (protobuf-c.c): every do_alloc / do_free the C code performs, in the order it performs them, under an
   arbitrary plan of refused requests.  Messages carry the identity of each heap block they point at (the
   number of the allocator request that produced it); scalar values are dropped (they own nothing), pointer
   states, has flags, oneof cases, element counts and unknown-field tables are kept, because the C code's
   decisions to allocate, move or free depend on exactly those.  The scanning pass is the value-level one
   (Impl/Unpack.v); this file adds what the value model leaves out: the message block, the required-fields
   bitmap, the ScannedMember slabs, the arrays, the unknown-field table and data, strings, bytes,
   sub-messages, ownership moves in merge_messages, and the two error exits.
   Tie: harness/ocaml/model_driver HTRACE prints the event sequence; the check compares it token by token with
   the sequence the real library produced through a recording allocator (UNPACKT), for failure-free runs and
   for every refusal plan it tries.  Proofs/HeapSafe*.v: the discipline holds for all inputs and all plans. *)
From Coq Require Import ZArith List Bool.
From PBC Require Import Base.CInt Gen.LeafC Impl.Desc Impl.Mem Impl.Enc Impl.Unpack.
Import ListNotations.
Local Open Scope Z_scope.

Inductive ev :=
| EvA (id : nat) (size : Z)     (* request number id granted *)
| EvR (id : nat) (size : Z)     (* request number id refused *)
| EvF (id : nat)                (* the block of request id handed to free *)
| EvX.                          (* free of something that is not a heap block (a static default) *)

Record hst := mkH { h_next : nat; h_trace : list ev }.   (* trace: most recent first *)

Inductive hslot_ (V : Type) :=
| HOne (has : Z) (v : V)
| HRep (arr : option (nat * list V))      (* array block and the elements stored so far (n = their number) *)
| HUnion (g : nat).
Arguments HOne {V}. Arguments HRep {V}. Arguments HUnion {V}.

Inductive hval :=
| HScalar                                  (* a scalar cell, or any zeroed cell *)
| HStr (p : ptr nat)
| HBytes (len : Z) (p : ptr nat)
| HMsg (p : option hmsg)
with hmsg :=
| HM (id : nat) (d : nat) (slots : list (hslot_ hval)) (unions : list (Z * hval))
     (utab : option nat) (unk : list (option nat)).   (* unknown-field table; data block of each entry (None: not allocated) *)

Definition hslot := hslot_ hval.

Definition hm_id (m : hmsg) := match m with HM i _ _ _ _ _ => i end.

Definition A (X : Type) := hst -> X * hst.
Definition ret {X} (x : X) : A X := fun s => (x, s).
Definition bnd {X Y} (c : A X) (k : X -> A Y) : A Y := fun s => let '(x, s') := c s in k x s'.
Notation "'doA' x <- c ; k" := (bnd c (fun x => k)) (at level 200, x pattern, c at level 100, k at level 200).

Definition iterA {X} (f : X -> A unit) : list X -> A unit :=
  fix go (l : list X) : A unit := match l with [] => ret tt | x :: t => doA _ <- f x; go t end.

Definition as_hstr (v : hval) : ptr nat := match v with HStr p => p | _ => PNull end.
Definition as_hbytes (v : hval) : Z * ptr nat := match v with HBytes n p => (n, p) | _ => (0, PNull) end.

Definition elt_size (t : ftype) : Z :=
  match t with
  | TInt32 | TSint32 | TSfixed32 | TUint32 | TFixed32 | TFloat | TBool | TEnum => 4
  | TInt64 | TSint64 | TSfixed64 | TUint64 | TFixed64 | TDouble => 8
  | TString | TMessage => 8
  | TBytes => 16
  end.

Definition has_default (f : field) : bool := match f_default f with Some _ => true | None => false end.
(* p == field->default_value (NULL when there is none) *)
Definition is_def (f : field) (p : ptr nat) : bool :=
  match p with PDef => has_default f | PNull => negb (has_default f) | PHeap _ => false end.

Definition h_init_cell (f : field) : hval :=
  match f_type f with
  | TString => HStr (if has_default f then PDef else PNull)
  | TBytes => match f_default f with Some (DBytes b) => HBytes (zlen b) PDef | _ => HBytes 0 PNull end
  | TMessage => HMsg None
  | _ => HScalar
  end.
Definition h_init_slot (f : field) : hslot :=
  match f_label f with
  | LRepeated => HRep None
  | _ => match f_quant f with QCase g => HUnion g | _ => HOne 0 (h_init_cell f) end
  end.

(* the scanner gets as far as storing the member: key and payload delimited (what precedes the slab test) *)
Definition scan_pre (at0 : list Z) : bool :=
  let rem := zlen at0 in
  let '(used, tag, wt) := parse_tag_and_wiretype rem at0 0 0 in
  if used =? 0 then false else
  let at1 := skipn (Z.to_nat used) at0 in
  let rem1 := rem - used in
  if wt =? WT_VARINT then match varint_end at1 10 with Some _ => true | None => false end
  else if wt =? WT_64BIT then negb (rem1 <? 8)
  else if wt =? WT_LEN then (let '(l, _) := scan_length_prefixed_data rem1 at1 0 in negb (l =? 0))
  else if wt =? WT_32BIT then negb (rem1 <? 4)
  else false.

Section Heap.
Variable E : env.
Variable plan : nat -> bool.      (* request number k is refused *)
Variable szmsg : nat -> Z.        (* sizeof_message of descriptor d *)

Definition alloc (size : Z) : A (option nat) := fun s =>
  let k := h_next s in
  if plan k then (None, mkH (S k) (EvR k size :: h_trace s))
  else (Some k, mkH (S k) (EvA k size :: h_trace s)).
Definition free_id (id : nat) : A unit := fun s => (tt, mkH (h_next s) (EvF id :: h_trace s)).
(* do_free(p): nothing for NULL *)
Definition free_raw (p : ptr nat) : A unit :=
  match p with
  | PNull => ret tt
  | PDef => fun s => (tt, mkH (h_next s) (EvX :: h_trace s))
  | PHeap id => free_id id
  end.
(* if (p != NULL && p != default) do_free(p) *)
Definition free_if_owned (f : field) (p : ptr nat) : A unit :=
  match p with PNull => ret tt | _ => if is_def f p then ret tt else free_raw p end.
Definition free_opt (o : option nat) : A unit := match o with Some i => free_id i | None => ret tt end.

(* ---------- protobuf_c_message_free_unpacked *)
Definition h_free_elem (rec : hmsg -> A unit) (f : field) (v : hval) : A unit :=
  match f_type f with
  | TString => free_raw (as_hstr v)
  | TBytes => free_raw (snd (as_hbytes v))
  | TMessage => match v with HMsg (Some m) => rec m | _ => ret tt end
  | _ => ret tt
  end.
Definition h_free_single (rec : hmsg -> A unit) (f : field) (v : hval) : A unit :=
  match f_type f with
  | TString => free_if_owned f (as_hstr v)
  | TBytes => free_if_owned f (snd (as_hbytes v))
  | TMessage => match v with HMsg (Some m) => rec m | _ => ret tt end
  | _ => ret tt
  end.
Definition h_free_slot (rec : hmsg -> A unit) (unions : list (Z * hval)) (f : field) (s : hslot) : A unit :=
  match s with
  | HUnion g => with_nth (fun cv : Z * hval => if fst cv =? f_id f then h_free_single rec f (snd cv) else ret tt)
                         (ret tt) unions g
  | HRep arr => match arr with
                | None => ret tt
                | Some (aid, elems) => doA _ <- iterA (h_free_elem rec f) elems; free_id aid
                end
  | HOne _ v => h_free_single rec f v
  end.
Definition h_free_slots (rec : hmsg -> A unit) (unions : list (Z * hval)) : list field -> list hslot -> A unit :=
  fix go (fs : list field) (ss : list hslot) {struct ss} : A unit :=
    match fs, ss with
    | f :: fs', s :: ss' => doA _ <- h_free_slot rec unions f s; go fs' ss'
    | _, _ => ret tt
    end.
Fixpoint h_free (m : hmsg) : A unit :=
  match m with
  | HM id d slots unions utab unk =>
      match nth_error E d with
      | None => ret tt
      | Some md =>
          doA _ <- h_free_slots h_free unions (md_fields md) slots;
          doA _ <- iterA free_opt unk;
          doA _ <- free_opt utab;
          free_id id
      end
  end.

(* ---------- merge_messages(earlier, latter): both are updated (moved fields are cleared in the earlier one) *)
(* one singular storage cell with its quantifier word (has flag or oneof case) *)
Definition h_merge_cell (rec : hmsg -> hmsg -> A (bool * hmsg * hmsg)) (f : field) (oneof_move : bool)
           (eq : Z) (ev : hval) (lq : Z) (lv : hval) : A (bool * (Z * hval) * (Z * hval)) :=
  let move (need : bool) : A (bool * (Z * hval) * (Z * hval)) :=
    if need then
      match f_quant f with
      | QNone => ret (true, (eq, HScalar), (lq, ev))
      | _ => ret (true, (0, HScalar), (eq, ev))
      end
    else ret (true, (eq, ev), (lq, lv)) in
  match f_type f with
  | TMessage =>
      match ev with
      | HMsg (Some em) =>
          match lv with
          | HMsg (Some lm) =>
              doA r <- rec em lm;
              let '(ok, em', lm') := r in
              ret (ok, (eq, HMsg (Some em')), (lq, HMsg (Some lm')))
          | _ => move true
          end
      | _ => move false
      end
  | TString => move (oneof_move || (negb (is_def f (as_hstr ev)) && is_def f (as_hstr lv)))
  | TBytes =>
      match f_quant f with
      | QNone => move (negb (fst (as_hbytes ev) =? 0) && (fst (as_hbytes lv) =? 0))
      | _ => move (negb (eq =? 0) && (lq =? 0))
      end
  | _ =>
      match f_quant f with
      | QNone => move false
      | _ => move (negb (eq =? 0) && (lq =? 0))
      end
  end.

Definition nonempty {X} (l : list X) : bool := match l with [] => false | _ => true end.

(* state of the loop over the fields: earlier/latter unions (current) *)
Definition h_merge_slot (rec : hmsg -> hmsg -> A (bool * hmsg * hmsg)) (md : mdesc) (lu0 : list (Z * hval))
           (f : field) (e l : hslot) (eu lu : list (Z * hval))
  : A (bool * hslot * hslot * list (Z * hval) * list (Z * hval)) :=
  match l with
  | HRep larr =>
      match e with
      | HRep (Some (ea, ee)) =>
          if nonempty ee then
            match larr with
            | Some (la, le) =>
                if nonempty le then
                  doA o <- alloc ((zlen ee + zlen le) * elt_size (f_type f));
                  match o with
                  | None => ret (false, e, l, eu, lu)
                  | Some id => doA _ <- free_id la; doA _ <- free_id ea;
                               ret (true, HRep None, HRep (Some (id, ee ++ le)), eu, lu)
                  end
                else ret (true, HRep None, HRep (Some (ea, ee)), eu, lu)
            | None => ret (true, HRep None, HRep (Some (ea, ee)), eu, lu)
            end
          else ret (true, e, l, eu, lu)
      | _ => ret (true, e, l, eu, lu)
      end
  | HOne lh lv =>
      match e with
      | HOne eh ev =>
          (* optional / implicit-presence members, and required sub-messages ("fix:" commit 6504315) *)
          if label_eqb (f_label f) LOptional || label_eqb (f_label f) LNone ||
             (label_eqb (f_label f) LRequired && ftype_eqb (f_type f) TMessage) then
            doA r <- h_merge_cell rec f false eh ev lh lv;
            let '(ok, (eh', ev'), (lh', lv')) := r in
            ret (ok, HOne eh' ev', HOne lh' lv', eu, lu)
          else ret (true, e, l, eu, lu)
      | _ => ret (true, e, l, eu, lu)
      end
  | HUnion g =>
      with_nth (fun lcv0 : Z * hval =>
        match nth_error eu g, nth_error lu g with
        | Some (ecase, ev), Some (lcase, _) =>
            let act (f' : field) (oneof_move : bool) :=
              doA r <- h_merge_cell rec f' oneof_move ecase ev lcase (snd lcv0);
              let '(ok, ecv', lcv') := r in
              ret (ok, e, l, set_nth eu g ecv', set_nth lu g lcv') in
            if lcase =? 0 then
              if ecase =? 0 then ret (true, e, l, eu, lu)
              else match find_field md ecase with
                   | None => ret (false, e, l, eu, lu)
                   | Some idx =>
                       match nth_error (md_fields md) idx with
                       | Some f' => if in_group f' g then act f' true else ret (false, e, l, eu, lu)
                       | None => ret (false, e, l, eu, lu)
                       end
                   end
            else if (lcase =? ecase) && (lcase =? f_id f) && ftype_eqb (f_type f) TMessage then act f false
            else ret (true, e, l, eu, lu)
        | _, _ => ret (true, e, l, eu, lu)
        end) (ret (true, e, l, eu, lu)) lu0 g
  end.

Definition h_merge_slots (rec : hmsg -> hmsg -> A (bool * hmsg * hmsg)) (md : mdesc) (lu0 : list (Z * hval))
  : list field -> list hslot -> list hslot -> list (Z * hval) -> list (Z * hval)
    -> A (bool * list hslot * list hslot * list (Z * hval) * list (Z * hval)) :=
  fix go (fs : list field) (es ls : list hslot) (eu lu : list (Z * hval)) {struct ls} :=
    match fs, es, ls with
    | f :: fs', e :: es', l :: ls' =>
        doA r <- h_merge_slot rec md lu0 f e l eu lu;
        let '(ok, e', l', eu', lu') := r in
        if ok then
          doA r2 <- go fs' es' ls' eu' lu';
          let '(ok2, es'', ls'', eu'', lu'') := r2 in
          ret (ok2, e' :: es'', l' :: ls'', eu'', lu'')
        else ret (false, e' :: es', l' :: ls', eu', lu')
    | _, _, _ => ret (true, es, ls, eu, lu)
    end.

Fixpoint h_merge (e l : hmsg) {struct l} : A (bool * hmsg * hmsg) :=
  match l with
  | HM lid ld ls lu lt lk =>
      match e with
      | HM eid ed es eu et ek =>
          match nth_error E ld with
          | None => ret (false, e, l)
          | Some md =>
              doA r <- h_merge_slots h_merge md lu (md_fields md) es ls eu lu;
              let '(ok, es', ls', eu', lu') := r in
              if negb ok then ret (false, HM eid ed es' eu' et ek, HM lid ld ls' lu' lt lk) else
              if nonempty ek then
                if nonempty lk then
                  doA o <- alloc ((zlen ek + zlen lk) * 24);
                  match o with
                  | None => ret (false, HM eid ed es' eu' et ek, HM lid ld ls' lu' lt lk)
                  | Some id => doA _ <- free_opt lt; doA _ <- free_opt et;
                               ret (true, HM eid ed es' eu' None [], HM lid ld ls' lu' (Some id) (ek ++ lk))
                  end
                else ret (true, HM eid ed es' eu' None [], HM lid ld ls' lu' et ek)
              else ret (true, HM eid ed es' eu' et ek, HM lid ld ls' lu' lt lk)
          end
      end
  end.

(* ---------- parsing members *)
Section Parse.
Variable unpack_sub : nat -> list Z -> A (option hmsg).

(* parse_required_member: new cell; the boolean is the C return value *)
Definition h_parse_required (f : field) (sm : smember) (old : hval) (maybe_clear : bool) : A (bool * hval) :=
  let payload := skipn (Z.to_nat (sm_pref sm)) (sm_data sm) in
  match f_type f with
  | TString =>
      if negb (sm_wt sm =? WT_LEN) then ret (false, old) else
      doA _ <- (if maybe_clear then free_if_owned f (as_hstr old) else ret tt);
      doA o <- alloc (sm_len sm - sm_pref sm + 1);
      match o with
      | None => ret (false, HStr PNull)
      | Some id => ret (true, HStr (PHeap id))
      end
  | TBytes =>
      if negb (sm_wt sm =? WT_LEN) then ret (false, old) else
      doA _ <- (if maybe_clear then free_if_owned f (snd (as_hbytes old)) else ret tt);
      if sm_len sm >? sm_pref sm then
        doA o <- alloc (sm_len sm - sm_pref sm);
        match o with
        | None => ret (false, HBytes (fst (as_hbytes old)) PNull)
        | Some id => ret (true, HBytes (sm_len sm - sm_pref sm) (PHeap id))
        end
      else ret (true, HBytes 0 PNull)
  | TMessage =>
      if negb (sm_wt sm =? WT_LEN) then ret (false, old) else
      doA sub <- unpack_sub (f_sub f) payload;
      match (if maybe_clear then old else HScalar) with
      | HMsg (Some em) =>
          match sub with
          | Some lm =>
              doA r <- h_merge em lm;
              let '(ok, em', lm') := r in
              doA _ <- h_free em';
              ret (ok, HMsg (Some lm'))
          | None => doA _ <- h_free em; ret (false, HMsg None)
          end
      | _ => ret (match sub with Some _ => true | None => false end, HMsg sub)
      end
  | t =>
      match dec_scalar t (sm_wt sm) (sm_len sm) (sm_data sm) with
      | Ok _ => ret (true, HScalar)
      | Err _ => ret (false, old)
      end
  end.

Definition h_append (s : hslot) (vs : list hval) : bool * hslot :=
  match s with
  | HRep (Some (aid, el)) => (true, HRep (Some (aid, el ++ vs)))
  | _ => (match vs with [] => true | _ => false end, s)
  end.

Definition h_parse_member (md : mdesc) (sm : smember) (m : hmsg) : A (bool * hmsg) :=
  let '(HM id d slots unions utab unk) := m in
  match sm_field sm with
  | None =>
      doA o <- alloc (sm_len sm);
      ret (match o with Some _ => true | None => false end, HM id d slots unions utab (unk ++ [o]))
  | Some i =>
      match nth_error (md_fields md) i, nth_error slots i with
      | Some f, Some s =>
          match f_label f with
          | LRequired =>
              match s with
              | HOne h old =>
                  doA r <- h_parse_required f sm old true;
                  ret (fst r, HM id d (set_nth slots i (HOne h (snd r))) unions utab unk)
              | _ => ret (false, m)
              end
          | LOptional | LNone =>
              match s with
              | HUnion g =>
                  match nth_error unions g with
                  | None => ret (false, m)
                  | Some (case, cell) =>
                      doA c0 <-
                        (if negb (case =? 0) && negb ((case =? sm_tag sm) && ftype_eqb (f_type f) TMessage) then
                           match find_field md case with
                           | None => ret None
                           | Some idx =>
                               match nth_error (md_fields md) idx with
                               | None => ret None
                               | Some old_f =>
                                   doA _ <- (match f_type old_f with
                                             | TString => free_if_owned old_f (as_hstr cell)
                                             | TBytes => free_if_owned old_f (snd (as_hbytes cell))
                                             | TMessage => match cell with HMsg (Some om) => h_free om | _ => ret tt end
                                             | _ => ret tt
                                             end);
                                   ret (Some HScalar)
                               end
                           end
                         else ret (Some cell));
                      match c0 with
                      | None => ret (false, m)
                      | Some cell0 =>
                          doA r <- h_parse_required f sm cell0 true;
                          ret (fst r, HM id d slots (set_nth unions g (if fst r then sm_tag sm else case, snd r)) utab unk)
                      end
                  end
              | HOne h old =>
                  doA r <- h_parse_required f sm old true;
                  let h' := if fst r then match f_quant f with QNone => h | _ => 1 end else h in
                  ret (fst r, HM id d (set_nth slots i (HOne h' (snd r))) unions utab unk)
              | _ => ret (false, m)
              end
          | LRepeated =>
              if packed_arrival f (sm_wt sm) then
                match parse_packed f sm with
                | Ok vs =>
                    let '(ok, s') := h_append s (map (fun _ => HScalar) vs) in
                    ret (ok, HM id d (set_nth slots i s') unions utab unk)
                | Err _ => ret (false, m)
                end
              else
                doA r <- h_parse_required f sm HScalar false;
                if fst r then
                  let '(ok, s') := h_append s [snd r] in
                  ret (ok, HM id d (set_nth slots i s') unions utab unk)
                else ret (false, m)
          end
      | _, _ => ret (false, m)
      end
  end.

Fixpoint h_parse_members (md : mdesc) (sms : list smember) (m : hmsg) : A (bool * hmsg) :=
  match sms with
  | [] => ret (true, m)
  | sm :: t => doA r <- h_parse_member md sm m;
               if fst r then h_parse_members md t (snd r) else ret r
  end.
End Parse.

(* ---------- the scanning pass with its slabs *)
Fixpoint h_scan (fuel : nat) (md : mdesc) (st : sstate) (w : nat) (j : Z) (slabs : list nat)
  : A (bool * sstate * list nat) :=
  match st_at st with
  | [] => ret (true, st, slabs)
  | _ :: _ =>
      match fuel with
      | O => ret (false, st, slabs)
      | S k =>
          if negb (scan_pre (st_at st)) then ret (false, st, slabs) else
          doA r <- (if j =? Z.shiftl 16 (Z.of_nat w) then
                      if Nat.eqb w 22 then ret None
                      else doA o <- alloc (Z.shiftl 32 (Z.of_nat (S w) + 4));
                           match o with
                           | None => ret None
                           | Some id => ret (Some (S w, 0, slabs ++ [id]))
                           end
                    else ret (Some (w, j, slabs)));
          match r with
          | None => ret (false, st, slabs)
          | Some (w', j', slabs') =>
              match scan_one md st with
              | Err _ => ret (false, st, slabs')
              | Ok st' => h_scan k md st' w' (j' + 1) slabs'
              end
          end
      end
  end.

(* arrays for the repeated fields that occurred; required fields must have been seen *)
Definition h_alloc_slots : list field -> list bool -> list slot -> list hslot -> A (bool * list hslot) :=
  fix go (fs : list field) (bm : list bool) (cs : list slot) (hs : list hslot) {struct hs} :=
    match fs, cs, hs with
    | f :: fs', c :: cs', h :: hs' =>
        doA r <- (match f_label f with
                  | LRepeated =>
                      match c with
                      | SRep n _ _ =>
                          if n =? 0 then ret (true, h)
                          else doA o <- alloc (elt_size (f_type f) * u32 n);
                               match o with
                               | None => ret (false, h)
                               | Some id => ret (true, HRep (Some (id, [])))
                               end
                      | _ => ret (false, h)
                      end
                  | LRequired =>
                      match f_default f with
                      | None => ret (hd false bm, h)
                      | Some _ => ret (true, h)
                      end
                  | _ => ret (true, h)
                  end);
        if fst r then
          doA r2 <- go fs' (tl bm) cs' hs';
          ret (fst r2, snd r :: snd r2)
        else ret (false, snd r :: hs')
    | _, _, _ => ret (true, hs)
    end.

Definition h_init (id d : nat) (md : mdesc) : hmsg :=
  HM id d (map h_init_slot (md_fields md)) (repeat (0, HScalar) (md_n_oneofs md)) None [].

Fixpoint h_unpack (fuel : nat) (d : nat) (data : list Z) : A (option hmsg) :=
  match fuel with
  | O => ret None
  | S k =>
      match nth_error E d with
      | None => ret None
      | Some md =>
          doA o <- alloc (szmsg d);
          match o with
          | None => ret None
          | Some id =>
              let nf := zlen (md_fields md) in
              doA bm <- (if 128 <? nf then
                           doA b <- alloc ((nf + 7) / 8);
                           match b with None => ret None | Some bid => ret (Some (Some bid)) end
                         else ret (Some None));
              match bm with
              | None => doA _ <- free_id id; ret None
              | Some bmid =>
                  let st0 := {| st_at := data;
                                st_last := match md_fields md with [] => None | _ => Some 0%nat end;
                                st_last_idx := 0%nat;
                                st_bitmap := repeat false (length (md_fields md));
                                st_members := []; st_slots := m_slots (init_msg d md); st_nunk := 0 |} in
                  doA r <- h_scan (S (length data)) md st0 0%nat 0 [];
                  let '(ok, st, slabs) := r in
                  let cleanup : A unit := doA _ <- iterA free_id slabs; free_opt bmid in
                  if negb ok then doA _ <- free_id id; doA _ <- cleanup; ret None else
                  let m0 := h_init id d md in
                  doA r2 <- h_alloc_slots (md_fields md) (st_bitmap st) (st_slots st) (map h_init_slot (md_fields md));
                  let m1 := HM id d (snd r2) (repeat (0, HScalar) (md_n_oneofs md)) None [] in
                  if negb (fst r2) then doA _ <- h_free m1; doA _ <- cleanup; ret None else
                  doA r3 <- (if st_nunk st =? 0 then ret (true, None)
                             else doA t <- alloc (st_nunk st * 24);
                                  match t with None => ret (false, None) | Some tid => ret (true, Some tid) end);
                  let m2 := HM id d (snd r2) (repeat (0, HScalar) (md_n_oneofs md)) (snd r3) [] in
                  if negb (fst r3) then doA _ <- h_free m2; doA _ <- cleanup; ret None else
                  doA r4 <- h_parse_members (h_unpack k) md (rev (st_members st)) m2;
                  if fst r4 then doA _ <- cleanup; ret (Some (snd r4))
                  else doA _ <- h_free (snd r4); doA _ <- cleanup; ret None
              end
          end
      end
  end.

(* protobuf_c_message_unpack followed, when it returned a message, by protobuf_c_message_free_unpacked;
   the result says whether a message was returned, and the trace is in the state *)
Definition h_run (d : nat) (data : list Z) : A bool :=
  doA o <- h_unpack (S (length data)) d data;
  match o with
  | Some m => doA _ <- h_free m; ret true
  | None => ret false
  end.

End Heap.

(* C05, termination: protobuf_c_message_unpack (model) never runs out of fuel -- every loop makes
   progress on every input: the scanning loop consumes at least one byte per member, the packed-varint
   loop at least one byte per element, and an embedded message is strictly shorter than its parent. *)
From Coq Require Import ZArith List Bool Lia ZifyBool.
From PBC Require Import Base.CInt Gen.LeafC Impl.Desc Impl.Mem Impl.Enc Impl.Unpack Proofs.LeafSafe Proofs.Required Proofs.MsgInd.
Import ListNotations.
Local Open Scope Z_scope.

Definition nf {A} (r : res A) : Prop := r <> Err EFuel.
Lemma nf_ok : forall A (a : A), nf (Ok a). Proof. intros A a H. discriminate H. Qed.
Lemma nf_err : forall A e, e <> EFuel -> nf (@Err A e). Proof. intros A e H E. inversion E. contradiction. Qed.
Lemma nf_bind : forall A B (r : res A) (f : A -> res B), nf r -> (forall a, r = Ok a -> nf (f a)) -> nf (bind r f).
Proof.
  intros A B r f Hr Hf. destruct r as [a|e]; cbn [bind]; [apply Hf; reflexivity|].
  intros E. apply Hr. inversion E. reflexivity.
Qed.
Ltac nf_simple := repeat first [ apply nf_ok | apply nf_err; discriminate | apply nf_bind; [|intros ? ?] ].

Ltac nf_cases :=
  repeat first [ apply nf_ok | apply nf_err; discriminate | apply nf_bind; [|intros ? ?]
               | match goal with
                 | |- nf (if ?c then _ else _) => destruct c
                 | |- nf (match ?x with _ => _ end) => destruct x
                 | |- nf (let '(_, _) := ?x in _) => destruct x
                 end ].

Section T.
Variable md : mdesc.

(* one scanning step never reports fuel exhaustion (it has no fuel) *)
Lemma scan_one_nf : forall st, nf (scan_one md st).
Proof.
  intros st. unfold scan_one.
  destruct (parse_tag_and_wiretype (Mem.zlen (st_at st)) (st_at st) 0 0) as [[used tag] wt].
  destruct (used =? 0); [nf_simple|].
  match goal with |- context [if ?c then (st_last st, st_last st, st_last_idx st, st_nunk st) else _] => destruct c end;
    cbv beta iota zeta.
  all: try (destruct (st_last st) as [li|]).
  all: try (destruct (find_field md tag) as [fi|]).
  all: cbn [bind].
  all: try match goal with |- context [nth_error (md_fields md) ?i] => destruct (nth_error (md_fields md) i) as [f|] end.
  all: cbn [bind].
  all: unfold bump_count; nf_cases.
Qed.

(* ... and it consumes at least one byte *)
Lemma scan_one_progress : forall st, st_at st <> [] ->
  forall st', scan_one md st = Ok st' ->
    (length (st_at st') < length (st_at st))%nat /\
    exists sm, st_members st' = sm :: st_members st /\ (length (sm_data sm) < length (st_at st))%nat.
Proof.
  intros st Hne st' H. unfold scan_one in H.
  assert (Hlen : 1 <= Mem.zlen (st_at st) <= Mem.zlen (st_at st)).
  { unfold Mem.zlen. destruct (st_at st); [congruence | cbn [length]; lia]. }
  destruct (parse_tag_and_wiretype (Mem.zlen (st_at st)) (st_at st) 0 0) as [[used tag] wt] eqn:Ep.
  destruct (parse_tag_and_wiretype_used _ _ Hlen _ _ _ _ _ Ep) as [Hu Hul].
  destruct (Z.eqb_spec used 0) as [->|Hnz]; [discriminate H|].
  assert (Hu1 : 1 <= used) by lia.
  set (at1 := skipn (Z.to_nat used) (st_at st)) in *.
  assert (Hat1 : (length at1 < length (st_at st))%nat).
  { unfold at1. rewrite skipn_length. unfold Mem.zlen in *. lia. }
  match type of H with context [if ?c then (st_last st, st_last st, st_last_idx st, st_nunk st) else _] => destruct c end;
    cbv beta iota zeta in H.
  all: try (destruct (st_last st) as [li|]).
  all: try (destruct (find_field md tag) as [fi|]).
  all: cbn [bind] in H.
  all: try match type of H with context [nth_error (md_fields md) ?i] => destruct (nth_error (md_fields md) i) as [f|] end.
  all: cbn [bind] in H; try discriminate H.
  all: match type of H with bind ?X _ = _ => destruct X as [[len pref]|e] end; cbn [bind] in H; try discriminate H.
  all: try (match type of H with bind ?X _ = _ => destruct X as [slots|e] end; cbn [bind] in H; try discriminate H).
  all: inversion H; subst st'; cbn [st_at st_members].
  all: split; [rewrite skipn_length; lia|]; eexists; split; [reflexivity|]; cbn [sm_data];
       rewrite firstn_length; lia.
Qed.

Lemma scan_loop_terminates : forall fuel st, (length (st_at st) < fuel)%nat -> nf (scan_loop fuel md st).
Proof.
  induction fuel as [|k IH]; intros st Hf; [lia|]. cbn [scan_loop].
  destruct (st_at st) as [|b t] eqn:Ea; [nf_simple|].
  assert (Hne : st_at st <> []) by congruence.
  apply nf_bind; [apply scan_one_nf|]. intros st' Hs. apply IH.
  destruct (scan_one_progress st Hne st' Hs) as [Hl _]. rewrite Ea in Hl. cbn [length] in *. lia.
Qed.

(* every scanned member's bytes are strictly shorter than the input *)
Lemma scan_loop_members_short : forall fuel st st' N, scan_loop fuel md st = Ok st' ->
  (length (st_at st) <= N)%nat -> Forall (fun sm => (length (sm_data sm) < N)%nat) (st_members st) ->
  Forall (fun sm => (length (sm_data sm) < N)%nat) (st_members st').
Proof.
  induction fuel as [|k IH]; intros st st' N H HN HF; cbn [scan_loop] in H.
  - destruct (st_at st); [inversion H; subst; exact HF | discriminate H].
  - destruct (st_at st) as [|b t] eqn:Ea; [inversion H; subst; exact HF|].
    destruct (scan_one md st) as [st1|e] eqn:E1; cbn [bind] in H; [|discriminate H].
    assert (Hne : st_at st <> []) by congruence.
    destruct (scan_one_progress st Hne st1 E1) as [Hl (sm & Hm & Hd)]. rewrite Ea in Hl, Hd.
    apply (IH st1 st' N H); [lia|]. rewrite Hm. constructor; [lia | exact HF].
Qed.
End T.

Lemma parse_packed_varints_terminates : forall fuel t data, (length data < fuel)%nat -> nf (parse_packed_varints fuel t data).
Proof.
  induction fuel as [|k IH]; intros t data Hf; [lia|]. cbn [parse_packed_varints].
  destruct data as [|b r] eqn:Ed; [nf_simple|]. rewrite <- Ed in *.
  pose proof (scan_varint_used (u32 (Mem.zlen data)) data ltac:(apply Bits.u32_range)) as [[Hs0 _] Hsl].
  destruct (Z.eqb_spec (scan_varint (u32 (Mem.zlen data)) data) 0) as [|Hnz]; [nf_simple|].
  nf_simple.
  - destruct t; cbn [dec_scalar]; nf_simple; match goal with |- nf (if ?c then _ else _) => destruct c; nf_simple end.
  - apply IH. rewrite skipn_length. assert (length data <> 0)%nat by (rewrite Ed; cbn; lia). lia.
Qed.

Lemma parse_packed_fixed_nf : forall n width t wt data, nf (parse_packed_fixed n width t wt data).
Proof.
  induction n as [|n IH]; intros width t wt data; cbn [parse_packed_fixed]; nf_simple.
  - destruct t; cbn [dec_scalar]; nf_simple; match goal with |- nf (if ?c then _ else _) => destruct c; nf_simple end.
  - apply IH.
Qed.

Lemma dec_scalar_nf : forall t wt len data, nf (dec_scalar t wt len data).
Proof. intros t wt len data. destruct t; cbn [dec_scalar]; nf_simple; match goal with |- nf (if ?c then _ else _) => destruct c; nf_simple end. Qed.

Section U.
Variable E : env.

(* merge_messages has no fuel: no branch reports exhaustion *)
Definition mq (v : sval) : Prop := forall lm, v = VMsg (Some lm) -> forall em, nf (merge_messages E em lm).

Lemma zeroish_nf : forall f v, nf (zeroish f v).
Proof. intros f v. unfold zeroish, as_word, as_str, as_bytes, as_msg, str_bytes. nf_cases. Qed.

Lemma merge_slot_nf : forall f es ls, slot_all mq ls -> nf (merge_slot (merge_messages E) f es ls).
Proof.
  intros f es ls HQ. unfold merge_slot.
  destruct (f_label f); try (nf_simple; fail).
  - (* required: only a sub-message is merged *)
    destruct (f_type f); try (nf_simple; fail).
    destruct es as [eh ev| |]; destruct ls as [lh lv| |]; try (nf_simple; fail).
    cbn [slot_all] in HQ.
    destruct ev as [w| | |[em|]]; destruct lv as [w2| | |[lm|]]; nf_cases; apply (HQ lm eq_refl).
  - (* optional *)
    destruct es as [eh ev| |]; destruct ls as [lh lv| |]; try (nf_simple; fail).
    cbn [slot_all] in HQ.
    destruct (f_type f); try (destruct (f_quant f); [apply nf_bind; [apply zeroish_nf|]; intros; apply nf_bind; [apply zeroish_nf|]; intros|..]; nf_cases; fail).
    + unfold as_str. nf_cases.
    + destruct ev as [w| | |[em|]]; destruct lv as [w2| | |[lm|]]; nf_cases; apply (HQ lm eq_refl).
  - (* repeated *)
    nf_cases.
  - destruct es as [eh ev| |]; destruct ls as [lh lv| |]; try (nf_simple; fail).
    cbn [slot_all] in HQ.
    destruct (f_type f); try (destruct (f_quant f); [apply nf_bind; [apply zeroish_nf|]; intros; apply nf_bind; [apply zeroish_nf|]; intros|..]; nf_cases; fail).
    + unfold as_str. nf_cases.
    + destruct ev as [w| | |[em|]]; destruct lv as [w2| | |[lm|]]; nf_cases; apply (HQ lm eq_refl).
Qed.

Lemma merge_slots_nf : forall fs es ls, Forall (slot_all mq) ls -> nf (merge_slots (merge_messages E) fs es ls).
Proof.
  induction fs as [|f fs IH]; intros es ls HF; destruct ls as [|l ls]; destruct es as [|e es]; cbn [merge_slots]; try (nf_simple; fail).
  inversion HF; subst. apply nf_bind; [apply merge_slot_nf; assumption|]. intros s _.
  apply nf_bind; [apply IH; assumption | intros; nf_simple].
Qed.

Lemma merge_union_nf : forall md g eu lu, mq (snd lu) -> nf (merge_union (merge_messages E) md g eu lu).
Proof.
  intros md g [ec ev] [lc lv] HQ. cbn [snd] in HQ. unfold merge_union.
  destruct (lc =? 0).
  - nf_cases.
  - destruct (lc =? ec); [|nf_simple].
    destruct (find_by_id _ lc) as [f|]; [|nf_simple].
    destruct (f_type f); try (nf_simple; fail).
    destruct ev as [w| | |[em|]]; destruct lv as [w2| | |[lm|]]; nf_cases; apply (HQ lm eq_refl).
Qed.

Lemma merge_unions_nf : forall md lu g eu, Forall (fun cv : Z * sval => mq (snd cv)) lu ->
  nf (merge_unions (merge_messages E) md g eu lu).
Proof.
  intros md. induction lu as [|l lu IH]; intros g eu HF; destruct eu as [|e eu]; cbn [merge_unions]; try (nf_simple; fail).
  inversion HF; subst. apply nf_bind; [apply merge_union_nf; assumption|]. intros u _.
  apply nf_bind; [apply IH; assumption | intros; nf_simple].
Qed.

Lemma merge_nf : forall l e, nf (merge_messages E e l).
Proof.
  apply (msg_ind2 (fun l => forall e, nf (merge_messages E e l)) mq); unfold mq; try (intros; discriminate).
  - intros m IH lm Hv em. inversion Hv; subst. apply IH.
  - intros d slots unions unk HS HU e. cbn [merge_messages].
    destruct (nth_error E d) as [md|]; [|nf_simple].
    apply nf_bind; [apply merge_slots_nf; exact HS|]. intros ss _.
    apply nf_bind; [apply merge_unions_nf; exact HU | intros; nf_simple].
Qed.

Lemma parse_required_nf : forall usub f sm old mc,
  (forall d, nf (usub d (skipn (Z.to_nat (sm_pref sm)) (sm_data sm)))) ->
  nf (parse_required E usub f sm old mc).
Proof.
  intros usub f sm old mc Hu. unfold parse_required.
  destruct (f_type f); try (apply nf_bind; [apply dec_scalar_nf | intros; nf_simple]).
  - destruct (negb _); nf_simple.
  - destruct (negb _); [nf_simple|]. destruct (_ >? _); nf_simple.
  - destruct (negb _); [nf_simple|]. apply nf_bind; [apply Hu|]. intros sub _.
    destruct mc; [|nf_simple]. apply nf_bind; [destruct old as [[| |]| | |]; nf_simple|].
    intros o _. destruct o; [|nf_simple]. apply nf_bind; [apply merge_nf | intros; nf_simple].
Qed.

Lemma parse_member_nf : forall usub md sm m,
  (forall d, nf (usub d (skipn (Z.to_nat (sm_pref sm)) (sm_data sm)))) ->
  nf (parse_member E usub md sm m).
Proof.
  intros usub md sm [d slots unions unk] Hu. unfold parse_member.
  destruct (sm_field sm) as [i|]; [|nf_simple].
  destruct (nth_error (md_fields md) i) as [f|]; [|nf_simple].
  destruct (nth_error slots i) as [s|]; [|nf_simple].
  pose proof (fun old mc => parse_required_nf usub f sm old mc Hu) as HR.
  destruct (f_label f).
  - destruct s; nf_simple. apply HR.
  - destruct (f_oneof f); destruct s; nf_simple; try apply HR.
    destruct (nth_error unions g) as [[case cell]|]; nf_simple; try apply HR.
    destruct (_ && _); [destruct (find_field md case)|]; nf_simple.
  - destruct (packed_arrival f (sm_wt sm)); nf_simple.
    + unfold parse_packed. destruct (f_type f); nf_simple; first [apply parse_packed_fixed_nf | apply parse_packed_varints_terminates; lia].
    + unfold append_elems. destruct s; nf_simple. destruct arr; [destruct (_ <=? _) | destruct (_ =? _)]; nf_simple.
    + apply HR.
    + unfold append_elems. destruct s; nf_simple. destruct arr; [destruct (_ <=? _) | destruct (_ =? _)]; nf_simple.
  - destruct (f_oneof f); destruct s; nf_simple; try apply HR.
    destruct (nth_error unions g) as [[case cell]|]; nf_simple; try apply HR.
    destruct (_ && _); [destruct (find_field md case)|]; nf_simple.
Qed.

Lemma parse_members_nf : forall usub md sms m,
  Forall (fun sm => forall d, nf (usub d (skipn (Z.to_nat (sm_pref sm)) (sm_data sm)))) sms ->
  nf (parse_members E usub md sms m).
Proof.
  intros usub md sms. induction sms as [|sm t IH]; intros m HF; cbn [parse_members]; [nf_simple|].
  inversion HF; subst. apply nf_bind; [apply parse_member_nf; assumption | intros m' _; apply IH; assumption].
Qed.

Lemma alloc_slots_nf : forall fs bm ss, nf (alloc_slots fs bm ss).
Proof.
  induction fs as [|f fs IH]; intros bm ss; cbn [alloc_slots]; [nf_simple|]. destruct ss; nf_simple; [|apply IH].
  unfold alloc_slot. destruct (f_label f); nf_simple.
  - destruct (f_default f); nf_simple. destruct (hd false bm); nf_simple.
  - destruct s; nf_simple. destruct (_ =? _); nf_simple.
Qed.

(* the parser terminates on every input: with fuel above the input length it never runs out, at any depth *)
Theorem unpack_terminates : forall fuel d data, (length data < fuel)%nat -> nf (unpack E fuel d data).
Proof.
  induction fuel as [|k IH]; intros d data Hf; [lia|]. cbn [unpack].
  destruct (nth_error E d) as [md|]; [|nf_simple].
  fold (st_init d md data).
  apply nf_bind; [apply scan_loop_terminates; cbn; lia|]. intros st Hs.
  destruct (max_members <? Mem.zlen (st_members st)); [nf_simple|].
  apply nf_bind; [apply alloc_slots_nf|]. intros slots _.
  apply parse_members_nf.
  pose proof (scan_loop_members_short md _ _ _ (length data) Hs ltac:(cbn; lia) ltac:(constructor)) as HF.
  rewrite Forall_forall in *. intros sm Hin d'. apply in_rev in Hin. specialize (HF sm Hin).
  apply IH. rewrite skipn_length. lia.
Qed.
End U.

(* Message level: scanning, allocation pass and parsing of all the fields of a
   canonical message. *)
From Coq Require Import ZArith List Bool Lia ZifyBool.
From PBC Require Import Base.CInt Base.Bits Gen.LeafC Spec.Wire
     Impl.Desc Impl.Mem Impl.Enc Impl.Pack Impl.WF Impl.Unpack Impl.Canon
     Proofs.LeafEnc Proofs.EncLemmas Proofs.LeafDec Proofs.SizePack Proofs.ScanRec Proofs.ScanRecs
     Proofs.CellRT2 Proofs.FieldRT Proofs.FieldPkg.
Import ListNotations.
Local Open Scope Z_scope.

Definition quad := (field * slot * list Z * list wrec)%type.
Definition q_f (q : quad) := fst (fst (fst q)).
Definition q_s (q : quad) := snd (fst (fst q)).
Definition q_F (q : quad) := snd (fst q).
Definition q_r (q : quad) := snd q.

Fixpoint all_members (i0 : nat) (qs : list quad) : list smember :=
  match qs with
  | [] => []
  | q :: t => members_of (q_f q) i0 (q_r q) ++ all_members (S i0) t
  end.

Definition counted (q : quad) : slot :=
  match q_s q with SRep n _ _ => SRep n 0 None | _ => init_slot (q_f q) end.

Lemma set_nth_app_mid : forall A (pre : list A) x post y, set_nth (pre ++ x :: post) (length pre) y = pre ++ y :: post.
Proof. induction pre as [|a pre IH]; intros x post y; cbn [app length set_nth]; [reflexivity | rewrite IH; reflexivity]. Qed.
Lemma nth_error_app_mid : forall A (pre : list A) x post, nth_error (pre ++ x :: post) (length pre) = Some x.
Proof. induction pre as [|a pre IH]; intros x post; cbn [app length nth_error]; [reflexivity | apply IH]. Qed.

Section MsgScan.
Variable nenv : nat.
Variable E : env.
Variable usub : nat -> list Z -> res msg.
Variable md : mdesc.
Hypothesis D : desc_ok nenv md = true.
Variable um : list (Z * sval).

Lemma scan_quads : forall qs pre_f pre_s pre_b st Ub,
  md_fields md = pre_f ++ map q_f qs ->
  length pre_s = length pre_f -> length pre_b = length pre_f ->
  (forall k q, nth_error qs k = Some q ->
     fpkg_with E usub md (q_r q) (length pre_f + k) (q_f q) (q_s q) um (q_F q)) ->
  (forall q, In q qs -> f_label (q_f q) = LRepeated -> exists n c a, q_s q = SRep n c a /\ 0 <= n < 268435456) ->
  (forall q, In q qs -> f_label (q_f q) <> LRepeated -> forall n c a, q_s q <> SRep n c a) ->
  st_slots st = pre_s ++ map (fun q => init_slot (q_f q)) qs ->
  st_bitmap st = pre_b ++ repeat false (length qs) ->
  st_at st = concat (map q_F qs) ++ Ub -> cache_ok md st -> zlen (st_at st) < 4294967296 ->
  exists st',
    (forall fuel, scan_loop (length (concat (map q_r qs)) + fuel) md st = scan_loop fuel md st') /\
    st_at st' = Ub /\
    st_members st' = rev (all_members (length pre_f) qs) ++ st_members st /\
    st_nunk st' = st_nunk st /\ cache_ok md st' /\
    st_slots st' = pre_s ++ map counted qs /\
    st_bitmap st' = pre_b ++ map (fun q => label_eqb (f_label (q_f q)) LRequired) qs.
Proof.
  induction qs as [|q qs IH]; intros pre_f pre_s pre_b st Ub Hfs Hls Hlb Hpk Hkind Hkind2 Hslots Hbm Hat Hc Hlen.
  - exists st. cbn [map concat length app all_members rev repeat Nat.add] in *. rewrite !app_nil_r in *.
    split; [intros fuel; reflexivity|]. repeat split; auto.
  - destruct q as [[[f s] F] recs]. cbn [map concat] in Hat. unfold q_F at 1 in Hat. cbn [fst snd] in Hat.
    pose proof (Hpk 0%nat (f, s, F, recs) eq_refl) as P0. rewrite Nat.add_0_r in P0.
    unfold q_r, q_f, q_s, q_F in P0. cbn [fst snd] in P0.
    destruct P0 as (HF & Hok & Hcnt & Hreq & _).
    set (i := length pre_f).
    assert (Hn : nth_error (md_fields md) i = Some f).
    { rewrite Hfs. cbn [map]. apply nth_error_app_mid. }
    cbn [map] in Hslots. unfold q_f at 1 in Hslots. cbn [fst] in Hslots.
    assert (Hat' : st_at st = concat (map (rec_bytes (f_id f)) recs) ++ (concat (map q_F qs) ++ Ub)).
    { rewrite Hat, HF, <- app_assoc. reflexivity. }
    (* scan the records of this field *)
    assert (Hstep : exists st1,
              (forall fuel, scan_loop (length recs + fuel) md st = scan_loop fuel md st1) /\
              st_at st1 = concat (map q_F qs) ++ Ub /\
              st_members st1 = rev (members_of f i recs) ++ st_members st /\
              st_nunk st1 = st_nunk st /\ cache_ok md st1 /\
              st_slots st1 = (pre_s ++ [counted (f, s, F, recs)]) ++ map (fun q => init_slot (q_f q)) qs /\
              st_bitmap st1 = (pre_b ++ [label_eqb (f_label f) LRequired]) ++ repeat false (length qs)).
    { destruct (label_eqb (f_label f) LRepeated) eqn:Erep.
      - (* repeated *)
        assert (El : f_label f = LRepeated) by (destruct (f_label f); try discriminate Erep; reflexivity).
        destruct (Hkind (f, s, F, recs) (or_introl eq_refl) El) as (n & c & a & Hs & Hnr).
        unfold q_s in Hs. cbn [fst snd] in Hs. subst s.
        destruct (Hcnt El) as (cs & Hcs & Hsum). cbn [slot_n] in Hsum.
        assert (Hslot : nth_error (st_slots st) i = Some (SRep 0 0 None)).
        { rewrite Hslots. unfold init_slot. rewrite El. subst i. rewrite <- Hls. apply nth_error_app_mid. }
        pose proof (scan_records_repeated nenv md D recs cs st i f (concat (map q_F qs) ++ Ub) 0 0 None
                      Hn Erep Hat' Hok Hcs Hlen Hc Hslot ltac:(lia) ltac:(lia)) as Hscan.
        rewrite Z.add_0_l, Hsum in Hscan.
        exists (after_recs st i f recs (concat (map q_F qs) ++ Ub) (set_nth (st_slots st) i (SRep n 0 None))).
        split; [exact Hscan|].
        assert (Hsl' : set_nth (st_slots st) i (SRep n 0 None) = (pre_s ++ [SRep n 0 None]) ++ map (fun q => init_slot (q_f q)) qs).
        { rewrite Hslots. subst i. rewrite <- Hls. rewrite set_nth_app_mid. rewrite <- app_assoc. reflexivity. }
        assert (Hbm' : st_bitmap st = (pre_b ++ [label_eqb (f_label f) LRequired]) ++ repeat false (length qs)).
        { rewrite Hbm. cbn [length repeat]. rewrite El. cbn [label_eqb]. rewrite <- app_assoc. reflexivity. }
        destruct recs as [|r recs'].
        + cbn [after_recs members_of map rev app].
          inversion Hcs; subst. cbn [fold_right] in *.
          repeat split; auto.
          rewrite Hslots. unfold counted, q_s. cbn [fst snd]. unfold init_slot. rewrite El. rewrite <- app_assoc. reflexivity.
        + cbn [after_recs st_at st_members st_nunk st_slots st_bitmap st_last st_last_idx].
          split; [reflexivity|]. split; [reflexivity|]. split; [reflexivity|]. split.
          { unfold cache_ok. cbn [st_last st_last_idx]. split; [reflexivity|]. apply nth_error_Some. rewrite Hn. discriminate. }
          split; [exact Hsl'|].
          rewrite El in *. cbn [label_eqb] in *. exact Hbm'.
      - (* not repeated *)
        pose proof (scan_records_single nenv md D recs st i f (concat (map q_F qs) ++ Ub) Hn Erep Hat' Hok Hlen Hc) as Hscan.
        exists (after_recs st i f recs (concat (map q_F qs) ++ Ub) (st_slots st)).
        split; [exact Hscan|].
        assert (Hcnt0 : counted (f, s, F, recs) = init_slot f).
        { unfold counted, q_s, q_f. cbn [fst snd]. destruct s as [| n c a |]; try reflexivity.
          exfalso. apply (Hkind2 (f, SRep n c a, F, recs) (or_introl eq_refl)) with (n := n) (c := c) (a := a); [|reflexivity].
          unfold q_f. cbn [fst]. intros El. rewrite El in Erep. discriminate Erep. }
        destruct recs as [|r recs'].
        + cbn [after_recs members_of map rev app].
          assert (Hnr : label_eqb (f_label f) LRequired = false).
          { destruct (f_label f) eqn:El; try reflexivity. exfalso. apply (Hreq eq_refl). reflexivity. }
          repeat split; auto.
          * rewrite Hslots, Hcnt0. rewrite <- app_assoc. reflexivity.
          * rewrite Hbm, Hnr. cbn [length repeat]. rewrite <- app_assoc. reflexivity.
        + cbn [after_recs st_at st_members st_nunk st_slots st_bitmap st_last st_last_idx].
          split; [reflexivity|]. split; [reflexivity|]. split; [reflexivity|]. split.
          { unfold cache_ok. cbn [st_last st_last_idx]. split; [reflexivity|]. apply nth_error_Some. rewrite Hn. discriminate. }
          split; [rewrite Hslots, Hcnt0, <- app_assoc; reflexivity|].
          rewrite Hbm. cbn [length repeat]. subst i. rewrite <- Hlb.
          destruct (label_eqb (f_label f) LRequired); [rewrite set_nth_app_mid | idtac]; rewrite <- app_assoc; reflexivity. }
    destruct Hstep as (st1 & Hs1 & Hat1 & Hm1 & Hu1 & Hc1 & Hsl1 & Hb1).
    assert (Hlen1 : zlen (st_at st1) < 4294967296).
    { rewrite Hat1. rewrite Hat in Hlen. rewrite !zlen_app in *. pose proof (zlen_nonneg _ F). lia. }
    destruct (IH (pre_f ++ [f]) (pre_s ++ [counted (f, s, F, recs)]) (pre_b ++ [label_eqb (f_label f) LRequired]) st1 Ub)
      as (st' & Hs' & Hat2 & Hm2 & Hu2 & Hc2 & Hsl2 & Hb2).
    + rewrite Hfs. cbn [map]. unfold q_f at 1. cbn [fst]. rewrite <- app_assoc. reflexivity.
    + rewrite !app_length. cbn [length]. lia.
    + rewrite !app_length. cbn [length]. lia.
    + intros k q Hq. rewrite app_length. cbn [length]. replace (length pre_f + 1 + k)%nat with (length pre_f + S k)%nat by lia.
      apply Hpk. exact Hq.
    + intros q Hq. apply Hkind. right. exact Hq.
    + intros q Hq. apply Hkind2. right. exact Hq.
    + exact Hsl1.
    + exact Hb1.
    + exact Hat1.
    + exact Hc1.
    + exact Hlen1.
    + exists st'. split.
      { intros fuel. cbn [map concat]. unfold q_r at 1. cbn [snd]. rewrite app_length.
        rewrite <- Nat.add_assoc. rewrite Hs1. apply Hs'. }
      split; [exact Hat2|]. split.
      { rewrite Hm2, Hm1. cbn [all_members]. unfold q_f at 1, q_r at 1. cbn [fst snd].
        rewrite app_length in *. cbn [length]. replace (length pre_f + 1)%nat with (S (length pre_f)) by lia.
        rewrite rev_app_distr. rewrite <- app_assoc. reflexivity. }
      split; [rewrite Hu2; exact Hu1|]. split; [exact Hc2|]. split.
      { rewrite Hsl2. cbn [map]. rewrite <- app_assoc. reflexivity. }
      rewrite Hb2. cbn [map]. unfold q_f at 2. cbn [fst]. rewrite <- app_assoc. reflexivity.
Qed.

End MsgScan.

(* C04 -- every valid encoding is accepted and read as the reference reads it.
   Proved here (Proofs/LeafDec.v, about the decoders regenerated from protobuf-c.c; Proofs/MsgRT4.v; Proofs/Merge.v):
   the leniency the property names at the level where it lives -- padded varints up to 10 bytes for values
   and 5 for keys and lengths are read as their value; packed and unpacked arrival are both taken for
   every packable type whatever the declared flag -- plus the canonical case as a whole (C01).
   Order independence (Proofs/Commute.v, Proofs/Reorder.v, Proofs/PrefixStable.v, Proofs/Records.v): a message
   given as a concatenation of wire records parses to the same result under every reordering that swaps
   adjacent INDEPENDENT records -- records of different fields that do not share a oneof, or a known and an
   unknown field.  (The relative order of the occurrences of one field, of the members of one oneof and of
   the unknown fields is what carries meaning: last one wins / concatenation / merge / retained order; an
   example shows that swapping two occurrences of one field does change the result.)  A record is a byte
   string the scanner reads as exactly one member, whatever follows it and whatever the lookup cache holds
   (scan_one_app, scan_one_factor): padded keys, padded lengths, padded varints, packed or unpacked
   arrival are all records.
   EVERY VALID ENCODING (Spec/WireRaw.v, Impl/SpecParse.v, Proofs/SpecRefine0-5.v): the reading of a byte string under a
   schema is written as a specification -- the reference reader splits the bytes into records, the records are folded in
   order into a fresh message (last value wins, sub-message occurrences merge, repeated fields append element-wise or
   packed whichever way they are declared, a oneof member replaces the one chosen before, unknown records are retained,
   every required field must occur), with the primitives of Spec/Wire.v -- and protobuf_c_message_unpack is proved to
   return exactly that reading whenever there is one.  The specification rejects (reads nothing from) some inputs
   protobuf-c accepts: wire types that do not fit, a bool sent with another wire type, varints overflowing 64 bits,
   keys / lengths longer than 5 bytes, packed bool elements that are padded varints (there the implementation sizes the
   array per byte: same value, larger allocation; machine-checked counter-example to the laxer specification).  That the
   specification's reading is the REFERENCE's reading is decided by the tie: every re-encoding produced by the Python
   reference encoder is read by the extracted specification, by protobuf-c and by libprotobuf; all must agree. *)
From Coq Require Import ZArith List Bool.
From PBC Require Import Base.CInt Gen.LeafC Spec.Wire Impl.Desc Impl.Mem Impl.Enc Impl.Pack Impl.Unpack Impl.Canon
     Proofs.LeafDec Proofs.MsgRT4 Proofs.Merge Proofs.Commute Proofs.Reorder Proofs.PrefixStable Proofs.Records Proofs.Examples Impl.SpecParse.
From PBC Require Proofs.LeafSafe Proofs.Required Proofs.SpecRefine0 Proofs.SpecRefine5 Proofs.SpecCanon4.
Import ListNotations.
Local Open Scope Z_scope.

(* a varint of 1..10 bytes, minimal or padded, is read as its value (mod 2^64; mod 2^32 for 32-bit types) *)
Theorem C04_padded_varint64 : forall bs rest, wfv bs -> (length bs <= 10)%nat ->
  (forall b, In b bs -> 0 <= b < 256) ->
  parse_uint64 (Z.of_nat (length bs)) (bs ++ rest) = varint_val bs mod 18446744073709551616.
Proof. exact parse_uint64_spec. Qed.
Print Assumptions C04_padded_varint64.

Theorem C04_padded_varint32 : forall bs rest, wfv bs -> (length bs <= 10)%nat ->
  parse_uint32 (Z.of_nat (length bs)) (bs ++ rest) = varint_val bs mod 4294967296.
Proof. exact parse_uint32_spec. Qed.
Print Assumptions C04_padded_varint32.

(* a key of 1..5 bytes, minimal or padded: field number and wire type *)
Theorem C04_padded_key : forall bs rest len t0 w0,
  wfv bs -> (length bs <= 5)%nat -> (forall b, In b bs -> 0 <= b < 256) ->
  Z.of_nat (length bs) <= len < 4294967296 ->
  (varint_val bs / 8) mod 4294967296 <> 0 ->
  parse_tag_and_wiretype len (bs ++ rest) t0 w0 =
  (Z.of_nat (length bs), (varint_val bs / 8) mod 4294967296, varint_val bs mod 8).
Proof. exact parse_tag_spec. Qed.
Print Assumptions C04_padded_key.

(* a length prefix of 1..5 bytes, minimal or padded *)
Theorem C04_padded_length : forall bs rest len p0,
  wfv bs -> (length bs <= 5)%nat -> (forall b, In b bs -> 0 <= b < 256) ->
  Z.of_nat (length bs) <= len < 4294967296 ->
  scan_length_prefixed_data len (bs ++ rest) p0 =
  scan_len_result (Z.of_nat (length bs)) len (varint_val bs).
Proof. exact scan_len_spec. Qed.
Print Assumptions C04_padded_length.

(* packed arrival is taken for every packable type, declared packed or not; anything else is an element *)
Theorem C04_packed_or_unpacked_partial : forall f,
  is_packable (f_type f) = true ->
  packed_arrival f WT_LEN = true /\ (forall wt, wt <> WT_LEN -> packed_arrival f wt = false).
Proof.
  intros f H. unfold packed_arrival. rewrite H. split.
  - rewrite orb_true_r. reflexivity.
  - intros wt Hw. destruct (Z.eqb_spec wt WT_LEN); [contradiction | reflexivity].
Qed.
Print Assumptions C04_packed_or_unpacked_partial.

(* stale earlier values of a singular field do not matter: the last one wins (shared with C10) *)
Theorem C04_last_value_wins_partial : forall E usub md sm d slots unions unk m' i f,
  parse_member E usub md sm (Msg d slots unions unk) = Ok m' ->
  sm_field sm = Some i -> nth_error (md_fields md) i = Some f ->
  f_label f <> LRepeated -> f_oneof f = false -> f_type f <> TMessage ->
  exists h v, nth_error (m_slots m') i = Some (SOne h v) /\
              parse_required E usub f sm (VWord 0) false = Ok v /\
              m_unions m' = unions /\ m_unk m' = unk.
Proof. exact singular_last_wins. Qed.
Print Assumptions C04_last_value_wins_partial.

(* the canonical encoding of every canonical message is accepted and read back exactly (C01); up to 268435425 bytes
   (max_input): beyond, one message could have more members than the parser's 23 slabs hold ("too many fields") *)
Theorem C04_canonical_encoding_partial : forall (E : env) (m : msg) (b : list Z),
  env_ok E = true -> canon_msg E m = true ->
  pack_msg E m = Ok b -> Z.of_nat (length b) <= 268435425 ->
  unpack_top E (m_desc m) b = Ok m.
Proof.
  intros E m b EO C Hp Hl. unfold unpack_top.
  exact (proj1 (roundtrip_canonical E EO m C (S (length b)) b Hp Hl (Nat.lt_succ_diag_r _))).
Qed.
Print Assumptions C04_canonical_encoding_partial.

(* ---- order independence *)
(* one parsing step commutes with another on a different field / oneof / unknown-vs-known *)
Theorem C04_parse_steps_commute : forall E usub md a b m, slots_agree md m -> indep md a b ->
  res_eq (bind (parse_member E usub md a m) (parse_member E usub md b))
         (bind (parse_member E usub md b m) (parse_member E usub md a)).
Proof. exact parse_member_comm. Qed.
Print Assumptions C04_parse_steps_commute.

(* the scanner reads a member the same way whatever follows it ... *)
Theorem C04_scanning_ignores_what_follows : forall md st st' extra,
  st_at st <> [] -> LeafSafe.bytes (st_at st) -> Mem.zlen (st_at st ++ extra) < 4294967296 ->
  scan_one md st = Ok st' ->
  scan_one md (set_at st (st_at st ++ extra)) = Ok (set_at st' (st_at st' ++ extra)).
Proof. exact scan_one_app. Qed.
Print Assumptions C04_scanning_ignores_what_follows.

(* ... and whatever the one-entry lookup cache holds *)
Theorem C04_scanning_ignores_the_lookup_cache : forall (E : env) md st, desc_ok (length E) md = true -> ScanCount.last_ok md st ->
  st_at st <> [] -> LeafSafe.bytes (st_at st) ->
  scan_one md st = (do r <- scan_pure md (st_at st); apply_member md st (fst r) (snd r)).
Proof. exact scan_one_factor. Qed.
Print Assumptions C04_scanning_ignores_the_lookup_cache.

(* two inputs whose scanned members are reorderings of one another parse to the same result *)
Theorem C04_result_depends_on_members_up_to_reordering : forall (E : env), env_ok E = true ->
  forall d md data data' st st',
  nth_error E d = Some md ->
  LeafSafe.bytes data -> LeafSafe.bytes data' -> Mem.zlen data < 2147483648 -> length data' = length data ->
  scan_loop (S (length data)) md (Required.st_init d md data) = Ok st ->
  scan_loop (S (length data')) md (Required.st_init d md data') = Ok st' ->
  reorder md (rev (st_members st)) (rev (st_members st')) ->
  res_eq (unpack_top E d data) (unpack_top E d data').
Proof. exact unpack_reorder. Qed.
Print Assumptions C04_result_depends_on_members_up_to_reordering.

(* on byte strings: any reordering of independent records *)
Theorem C04_field_order_is_irrelevant : forall (E : env) d md prs prs', env_ok E = true -> nth_error E d = Some md ->
  Forall (rec_ok md) prs -> rreorder md prs prs' -> Mem.zlen (concat (map fst prs)) < 2147483648 ->
  res_eq (unpack_top E d (concat (map fst prs))) (unpack_top E d (concat (map fst prs'))).
Proof. exact unpack_record_order_independent. Qed.
Print Assumptions C04_field_order_is_irrelevant.

(* non-vacuous: three concrete records (a varint field, a packed repeated field, an unknown field) in two orders give the
   same accepted message; two occurrences of one field are not independent, and swapping them changes the result *)
Theorem C04_field_order_nonvacuous :
  (exists m, unpack_top ex_env 0 (concat (map fst [rec_a; rec_b; rec_u])) = Ok m /\
             unpack_top ex_env 0 (concat (map fst [rec_b; rec_a; rec_u])) = Ok m) /\
  ~ indep ex_md (snd rec_a) (snd rec_a) /\
  unpack_top ex_env 0 ([8;150;1] ++ [8;7]) <> unpack_top ex_env 0 ([8;7] ++ [8;150;1]).
Proof. exact (conj ex_swap_ab_accepted (conj same_field_not_indep same_field_order_matters)). Qed.
Print Assumptions C04_field_order_nonvacuous.

(* ---- every valid encoding: the implementation returns the specification's reading *)
Theorem C04_every_valid_encoding_is_read_as_specified : forall (E : env) (d : nat) (b : list Z) (m : msg),
  env_ok E = true -> LeafSafe.bytes b -> Mem.zlen b <= 268435425 ->
  spec_parse_top E d b = Some m -> unpack_top E d b = Ok m.
Proof. exact SpecRefine5.spec_parse_refined. Qed.
Print Assumptions C04_every_valid_encoding_is_read_as_specified.

(* non-vacuous: the specification reads the canonical encoding of the example message, and a NON-canonical encoding (fields
   out of order, a padded key and a padded value, a packable field sent unpacked and then packed, an unknown field) *)
Theorem C04_specification_reads_canonical_and_noncanonical_encodings :
  (exists b, pack_msg ex_env ex_msg = Ok b /\ spec_parse_top ex_env 0 b = Some ex_msg) /\
  (exists m, spec_parse_top ex_env 0 SpecRefine5.ex_bytes = Some m /\ unpack_top ex_env 0 SpecRefine5.ex_bytes = Ok m /\
             pack_msg ex_env m <> Ok SpecRefine5.ex_bytes).
Proof. exact (conj SpecRefine5.spec_reads_ex_msg SpecRefine5.spec_reads_noncanonical). Qed.
Print Assumptions C04_specification_reads_canonical_and_noncanonical_encodings.

(* why packed bool elements must be single bytes in the specification: with 10-byte elements allowed (Lax) the
   specification reads [10;2;128;0] as one element in an array of one, protobuf-c allocates an array of two *)
Theorem C04_laxer_specification_is_not_refined :
  ~ (forall (E : env) (d : nat) (b : list Z) (m : msg),
       env_ok E = true -> LeafSafe.bytes b -> Mem.zlen b <= 268435425 ->
       SpecRefine0.Lax.spec_parse_top E d b = Some m -> unpack_top E d b = Ok m).
Proof. exact SpecRefine0.lax_not_refined. Qed.
Print Assumptions C04_laxer_specification_is_not_refined.

(* the specification is not vacuous on any canonical encoding: it reads what pack writes for EVERY canonical message back
   to that message (so, with the theorem above, the specification-level route gives the round trip of C01 once more) *)
Theorem C04_specification_reads_every_canonical_encoding : forall (E : env) (m : msg) (b : list Z),
  env_ok E = true -> canon_msg E m = true -> unk_strict m = true ->
  pack_msg E m = Ok b -> Mem.zlen b <= 268435425 ->
  spec_parse_top E (m_desc m) b = Some m.
Proof. exact SpecCanon4.spec_reads_canonical. Qed.
Print Assumptions C04_specification_reads_every_canonical_encoding.

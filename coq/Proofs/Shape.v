(* Shape of in-memory messages as the parser builds them: every slot is of the kind its field calls for,
   counts agree with arrays, cells hold the kind of value their type calls for, sub-messages have the
   descriptor their field names, a oneof's case is 0 or the number of one of its members.  This is the
   invariant under which no step of parsing or merging indexes outside an array or finds a cell of the
   wrong kind (Proofs/ParseSafe.v).  Boolean, so that it can also be evaluated. *)
From Coq Require Import ZArith List Bool.
From PBC Require Import Base.CInt Gen.LeafC Impl.Desc Impl.Mem Impl.Enc Impl.Unpack.
Import ListNotations.
Local Open Scope Z_scope.

Section Shape.
Variable E : env.

(* a cell of field f: the kind of value matches the type; a sub-message has the right descriptor *)
Definition cell_shape (rec : msg -> bool) (f : field) (v : sval) : bool :=
  match f_type f with
  | TString => match v with VStr _ => true | _ => false end
  | TBytes => match v with VBytes _ _ => true | _ => false end
  | TMessage => match v with
                | VMsg None => true
                | VMsg (Some sub) => rec sub && Nat.eqb (m_desc sub) (f_sub f)
                | _ => false
                end
  | _ => match v with VWord _ => true | _ => false end
  end.

Definition is_case (q : quant) : bool := match q with QCase _ => true | _ => false end.

Definition slot_shape (rec : msg -> bool) (nunions : nat) (f : field) (s : slot) : bool :=
  match s with
  | SRep n cap arr =>
      label_eqb (f_label f) LRepeated &&
      match arr with
      | None => n =? 0
      | Some l => (n =? zlen l) && (n <=? cap) && forallb (cell_shape rec f) l
      end
  | SOne h v =>
      negb (label_eqb (f_label f) LRepeated) && negb (is_case (f_quant f)) && negb (f_oneof f) && cell_shape rec f v
  | SUnion g =>
      (label_eqb (f_label f) LOptional || label_eqb (f_label f) LNone) &&
      match f_quant f with QCase g' => Nat.eqb g g' | _ => false end && f_oneof f && Nat.ltb g nunions
  end.

Definition slots_shape (rec : msg -> bool) (nunions : nat) : list field -> list slot -> bool :=
  fix go (fs : list field) (ss : list slot) {struct ss} : bool :=
    match fs, ss with
    | [], [] => true
    | f :: fs', s :: ss' => slot_shape rec nunions f s && go fs' ss'
    | _, _ => false
    end.

(* the storage of oneof group g: unset, or one of the group's members with a cell of its shape *)
Definition union_shape (rec : msg -> bool) (fs : list field) (g : nat) (cv : Z * sval) : bool :=
  ((fst cv =? 0) && match snd cv with VWord 0 => true | _ => false end) ||
  existsb (fun f => (f_id f =? fst cv) && match f_quant f with QCase g' => Nat.eqb g g' | _ => false end &&
                    f_oneof f && cell_shape rec f (snd cv)) fs.

Definition unions_shape (rec : msg -> bool) (fs : list field) : nat -> list (Z * sval) -> bool :=
  fix go (g : nat) (us : list (Z * sval)) {struct us} : bool :=
    match us with
    | [] => true
    | cv :: t => union_shape rec fs g cv && go (S g) t
    end.

Fixpoint shape_msg (m : msg) : bool :=
  match m with
  | Msg d slots unions unk =>
      match nth_error E d with
      | None => false
      | Some md =>
          slots_shape shape_msg (length unions) (md_fields md) slots &&
          Nat.eqb (length unions) (md_n_oneofs md) &&
          unions_shape shape_msg (md_fields md) 0 unions
      end
  end.

End Shape.

(* How many members the scanning loop of protobuf_c_message_unpack can record: every member takes at least
   two bytes of the input (its key, and at least one byte of payload), whatever the bytes and the descriptor
   are.  So an input of at most max_input = 2 * max_members + 1 bytes never reaches the "too many fields"
   test of unpack (the 23-entry slab table), and the acceptance theorems are stated for such inputs. *)
From Coq Require Import ZArith List Bool Lia ZifyBool.
From PBC Require Import Base.CInt Gen.LeafC Impl.Desc Impl.Mem Impl.Enc Impl.Unpack Proofs.LeafSafe.
Import ListNotations.
Local Open Scope Z_scope.

Lemma varint_end_lt : forall l max i, varint_end l max = Some i -> 0 <= i < Mem.zlen l.
Proof.
  induction l as [|b t IH]; intros max i H; destruct max; cbn [varint_end] in H; try discriminate H.
  destruct (Z.land b 128 =? 0).
  - inversion H; subst. unfold Mem.zlen. cbn [length]. lia.
  - destruct (varint_end t max) as [j|] eqn:E; [|discriminate H]. inversion H; subst.
    specialize (IH max j E). unfold Mem.zlen in *. cbn [length]. lia.
Qed.

(* one step records one member and consumes at least two bytes *)
Lemma scan_one_consumes : forall md st st', scan_one md st = Ok st' -> st_at st <> [] ->
  exists sm, st_members st' = sm :: st_members st /\ Mem.zlen (st_at st') + 2 <= Mem.zlen (st_at st).
Proof.
  intros md st st' H Hne. unfold scan_one in H.
  assert (Hlen : 1 <= Mem.zlen (st_at st) <= LeafSafe.zlen (st_at st)).
  { unfold Mem.zlen, LeafSafe.zlen. destruct (st_at st); [congruence | cbn [length]; lia]. }
  destruct (parse_tag_and_wiretype (Mem.zlen (st_at st)) (st_at st) 0 0) as [[used tag] wt] eqn:Ep.
  destruct (parse_tag_and_wiretype_used _ _ Hlen _ _ _ _ _ Ep) as [Hu Hul].
  destruct (Z.eqb_spec used 0) as [->|Hnz]; [discriminate H|].
  set (at1 := skipn (Z.to_nat used) (st_at st)) in *.
  assert (Hat1 : Mem.zlen at1 = Mem.zlen (st_at st) - used).
  { unfold at1, Mem.zlen. rewrite skipn_length. unfold Mem.zlen in *. lia. }
  match type of H with context [if ?c then _ else match find_field md tag with _ => _ end] =>
    destruct (if c then (st_last st, st_last st, st_last_idx st, st_nunk st)
              else match find_field md tag with
                   | None => (None, st_last st, st_last_idx st, st_nunk st + 1)
                   | Some i => (Some i, Some i, i, st_nunk st)
                   end) as [[[fidx last] last_idx] nunk] end.
  match type of H with bind ?X _ = _ => destruct X as [fo|e] end; cbn [bind] in H; [|discriminate H].
  match type of H with bind ?X _ = _ => destruct X as [[len pref]|e] eqn:Elp end; cbn [bind] in H; [|discriminate H].
  assert (Hlp : 1 <= len <= Mem.zlen at1).
  { destruct (wt =? WT_VARINT).
    - destruct (varint_end at1 10) as [i|] eqn:Ev; [|discriminate Elp]. inversion Elp; subst.
      pose proof (varint_end_lt _ _ _ Ev). lia.
    - destruct (wt =? WT_64BIT).
      + destruct (Z.ltb_spec (Mem.zlen (st_at st) - used) 8); [discriminate Elp|]. inversion Elp; subst. lia.
      + destruct (wt =? WT_LEN).
        * destruct (scan_length_prefixed_data (Mem.zlen (st_at st) - used) at1 0) as [l p] eqn:Es.
          destruct (Z.eqb_spec l 0); [discriminate Elp|]. inversion Elp; subst.
          destruct (scan_length_prefixed_data_used (Mem.zlen (st_at st) - used) at1 ltac:(lia) 0 len pref Es) as [H0|H1]; lia.
        * destruct (wt =? WT_32BIT); [|discriminate Elp].
          destruct (Z.ltb_spec (Mem.zlen (st_at st) - used) 4); [discriminate Elp|]. inversion Elp; subst. lia. }
  match type of H with bind ?X _ = _ => destruct X as [slots|e] end; cbn [bind] in H; [|discriminate H].
  inversion H; subst st'; clear H. cbn [st_members st_at].
  eexists. split; [reflexivity|].
  unfold Mem.zlen in *. rewrite skipn_length. lia.
Qed.

(* the whole loop: twice the number of members recorded, plus what is left, never exceeds what there was *)
Lemma scan_loop_members : forall fuel md st st', scan_loop fuel md st = Ok st' ->
  2 * Mem.zlen (st_members st') + Mem.zlen (st_at st') <= 2 * Mem.zlen (st_members st) + Mem.zlen (st_at st).
Proof.
  induction fuel as [|k IH]; intros md st st' H; cbn [scan_loop] in H.
  - destruct (st_at st) eqn:Ea in H; [inversion H; subst; lia | discriminate H].
  - destruct (st_at st) as [|b t] eqn:Ea in H; [inversion H; subst; lia|].
    destruct (scan_one md st) as [st1|e] eqn:E1; cbn [bind] in H; [|discriminate H].
    specialize (IH md st1 st' H).
    destruct (scan_one_consumes md st st1 E1 ltac:(congruence)) as (sm & Hm & Hc).
    rewrite Hm in IH. unfold Mem.zlen in *. cbn [length] in *. lia.
Qed.

(* members are only ever added *)
Lemma scan_loop_members_mono : forall fuel md st st', scan_loop fuel md st = Ok st' ->
  (length (st_members st) <= length (st_members st'))%nat.
Proof.
  induction fuel as [|k IH]; intros md st st' H; cbn [scan_loop] in H.
  - destruct (st_at st); [inversion H; subst; lia | discriminate H].
  - destruct (st_at st) as [|b t] eqn:Ea; [inversion H; subst; lia|].
    destruct (scan_one md st) as [st1|e] eqn:E1; cbn [bind] in H; [|discriminate H].
    specialize (IH md st1 st' H).
    destruct (scan_one_consumes md st st1 E1 ltac:(congruence)) as (sm & Hm & _).
    rewrite Hm in IH. cbn [length] in IH. lia.
Qed.

Corollary scan_loop_member_count : forall fuel md st st', scan_loop fuel md st = Ok st' -> st_members st = [] ->
  2 * Mem.zlen (st_members st') <= Mem.zlen (st_at st).
Proof.
  intros fuel md st st' H Hm. pose proof (scan_loop_members fuel md st st' H) as L. rewrite Hm in L.
  unfold Mem.zlen in *. cbn [length] in L. lia.
Qed.

(* the "too many fields" test of unpack never fires on an input of at most max_input bytes *)
Corollary member_limit_ok : forall fuel md st st', scan_loop fuel md st = Ok st' -> st_members st = [] ->
  Mem.zlen (st_at st) <= max_input -> (max_members <? Mem.zlen (st_members st')) = false.
Proof.
  intros fuel md st st' H Hm Hl. pose proof (scan_loop_member_count fuel md st st' H Hm). unfold max_input, max_members in *. lia.
Qed.

(* C05, model level: on EVERY input the model of protobuf_c_message_unpack either rejects (EFail) or returns a
   well-shaped message; no step indexes outside the field table, the slot array, a oneof's storage or a repeated
   field's element array (the scan's element count bounds what the parse stores), no cell of the wrong kind is
   met, merging never fails. *)
From Coq Require Import ZArith List Bool Lia ZifyBool.
From PBC Require Import Base.CInt Base.Bits Gen.LeafC Impl.Desc Impl.Mem Impl.Enc Impl.WF Impl.Unpack Impl.Canon
     Proofs.Lookup Proofs.LookupGen Proofs.ScanRec Proofs.LeafSafe Proofs.ScanInv Proofs.Required Proofs.MsgRT4
     Proofs.ScanRecs Proofs.Shape Proofs.ScanCount Proofs.MergeSafe.
Import ListNotations.
Local Open Scope Z_scope.

Ltac Zify.zify_post_hook ::= Z.div_mod_to_equations.

Definition okres {A} (P : A -> Prop) (r : res A) : Prop :=
  match r with Ok a => P a | Err e => e = EFail end.

Lemma okres_bind : forall A B (P : A -> Prop) (Q : B -> Prop) (r : res A) (k : A -> res B),
  okres P r -> (forall a, r = Ok a -> P a -> okres Q (k a)) -> okres Q (bind r k).
Proof. intros A B P Q r k Hr Hk. destruct r as [a|e]; cbn [bind okres] in *; [apply Hk; auto | exact Hr]. Qed.

Lemma dec_scalar_okres : forall t wt len data, is_scalar t = true -> okres (fun _ => True) (dec_scalar t wt len data).
Proof.
  intros t wt len data Hs. destruct t; try discriminate Hs; cbn [dec_scalar]; cbv beta;
    try (match goal with |- context [if ?c then _ else _] => destruct c end); cbn [okres]; auto.
Qed.

Lemma sone_shape : forall rec nu f h v, slot_shape rec nu f (SOne h v) = true ->
  label_eqb (f_label f) LRepeated = false /\ is_case (f_quant f) = false /\ f_oneof f = false /\ cell_shape rec f v = true.
Proof.
  intros rec nu f h v H. unfold slot_shape in H. rewrite !andb_true_iff in H. destruct H as [[[H1 H2] H3] H4].
  repeat split; try assumption; apply negb_true_iff; assumption.
Qed.
Lemma sone_shape_intro : forall rec nu f h v,
  label_eqb (f_label f) LRepeated = false -> is_case (f_quant f) = false -> f_oneof f = false -> cell_shape rec f v = true ->
  slot_shape rec nu f (SOne h v) = true.
Proof. intros rec nu f h v H1 H2 H3 H4. unfold slot_shape. rewrite H1, H2, H3, H4. reflexivity. Qed.
Lemma srep_shape : forall rec nu f n c a, slot_shape rec nu f (SRep n c a) = true -> label_eqb (f_label f) LRepeated = true.
Proof. intros rec nu f n c a H. unfold slot_shape in H. apply andb_true_iff in H. exact (proj1 H). Qed.
Lemma sunion_shape : forall rec nu f g, slot_shape rec nu f (SUnion g) = true ->
  f_quant f = QCase g /\ f_oneof f = true /\ (g < nu)%nat.
Proof.
  intros rec nu f g H. unfold slot_shape in H. rewrite !andb_true_iff in H. destruct H as [[[_ H2] H3] H4].
  destruct (f_quant f) as [| |g'|]; try discriminate H2. apply Nat.eqb_eq in H2. subst g'. apply Nat.ltb_lt in H4. auto.
Qed.

Lemma okres_impl : forall A (P Q : A -> Prop) (r : res A), okres P r -> (forall a, P a -> Q a) -> okres Q r.
Proof. intros A P Q [a|e] H HI; cbn [okres] in *; auto. Qed.

Lemma slots_shape_pointwise : forall rec nu (fl : list field) (ss : list slot), (length ss = length fl)%nat ->
  (forall i f s, nth_error fl i = Some f -> nth_error ss i = Some s -> slot_shape rec nu f s = true) ->
  slots_shape rec nu fl ss = true.
Proof.
  intros rec nu. induction fl as [|f t IH]; intros [|s ss] Hl H; cbn [length] in Hl; try discriminate Hl; [reflexivity|].
  cbn [slots_shape]. fold (slots_shape rec nu). rewrite (H 0%nat f s eq_refl eq_refl). cbn [andb].
  apply IH; [lia|]. intros i g x Hg Hx. exact (H (S i) g x Hg Hx).
Qed.

Lemma unions_shape_repeat : forall rec fl n g0, unions_shape rec fl g0 (repeat (0, VWord 0) n) = true.
Proof. intros rec fl. induction n as [|n IH]; intros g0; cbn [repeat unions_shape]; [reflexivity|]. fold (unions_shape rec fl). rewrite IH. reflexivity. Qed.

Lemma init_slot_shape : forall rec nu f, field_ok nu f = true -> label_eqb (f_label f) LRepeated = false ->
  slot_shape rec nu f (init_slot f) = true.
Proof.
  intros rec nu f Hok Hr. unfold field_ok in Hok. rewrite !andb_true_iff in Hok. destruct Hok as [[[[_ _] Hq] _] Hd].
  assert (Hc : cell_shape rec f (init_cell f) = true).
  { unfold cell_shape, init_cell. destruct (f_type f); try reflexivity; destruct (f_default f) as [[w|x|x]|]; try reflexivity; discriminate Hd. }
  unfold init_slot, slot_shape.
  destruct (f_label f) eqn:El; try discriminate Hr; destruct (f_quant f) as [| |g|] eqn:Eq; try discriminate Hq;
    cbn [label_eqb negb is_case andb orb]; rewrite ?andb_true_iff in Hq.
  all: try (match type of Hq with _ /\ Nat.ltb _ _ = true => destruct Hq as [Ho Hg]; rewrite Ho, Hg, Nat.eqb_refl; reflexivity end).
  all: repeat (match type of Hq with _ /\ _ => destruct Hq as [Hq _] end).
  all: apply negb_true_iff in Hq; rewrite Hq; cbn [negb andb]; exact Hc.
Qed.

Lemma alloc_slots_okres : forall (fl : list field) (bm : list bool) (ss : list slot), (length ss = length fl)%nat ->
  (forall i f s, nth_error fl i = Some f -> nth_error ss i = Some s -> label_eqb (f_label f) LRepeated = true ->
     exists n c a, s = SRep n c a) ->
  okres (fun ss' : list slot => (length ss' = length fl)%nat /\
          forall i f s, nth_error fl i = Some f -> nth_error ss i = Some s ->
            exists s', nth_error ss' i = Some s' /\ alloc_slot f (nth i bm false) s = Ok s')
        (alloc_slots fl bm ss).
Proof.
  induction fl as [|f t IH]; intros bm [|s ss] Hl HR; cbn [length] in Hl; try discriminate Hl; cbn [alloc_slots].
  - cbn [okres]. split; [reflexivity|]. intros i f s Hf. destruct i; discriminate Hf.
  - destruct (alloc_slot f (hd false bm) s) as [s'|e] eqn:Ea; cbn [bind].
    2:{ cbn [okres]. unfold alloc_slot in Ea. destruct (f_label f) eqn:El.
        - destruct (f_default f); [discriminate Ea|]. destruct (hd false bm); [discriminate Ea | inversion Ea; reflexivity].
        - discriminate Ea.
        - destruct (HR 0%nat f s eq_refl eq_refl ltac:(rewrite El; reflexivity)) as (n & c & a & ->).
          destruct (n =? 0); discriminate Ea.
        - discriminate Ea. }
    specialize (IH (tl bm) ss ltac:(lia) (fun i g x Hg Hx => HR (S i) g x Hg Hx)).
    destruct (alloc_slots t (tl bm) ss) as [r|e]; cbn [bind okres] in *; [|exact IH].
    destruct IH as [IH1 IH2]. split; [cbn [length]; lia|].
    intros i g x Hg Hx. destruct i as [|i]; cbn [nth_error] in *.
    + inversion Hg; inversion Hx; subst. exists s'. split; [reflexivity|]. destruct bm; exact Ea.
    + destruct (IH2 i g x Hg Hx) as (x' & Hx' & Ha). exists x'. split; [exact Hx'|]. destruct bm as [|b bm]; [|exact Ha].
      cbn [tl] in Ha. destruct i; exact Ha.
Qed.

Lemma total_app : forall md i a b, total md i (a ++ b) = total md i a + total md i b.
Proof. intros md i. induction a as [|x t IH]; intros b; cbn [app total]; [lia|]. rewrite IH. lia. Qed.
Lemma total_rev : forall md i a, total md i (rev a) = total md i a.
Proof. intros md i. induction a as [|x t IH]; cbn [rev]; [reflexivity|]. rewrite total_app, IH. cbn [total]. lia. Qed.

Section PS.
Variable E : env.
Hypothesis EO : env_ok E = true.
Notation shp := (shape_msg E).

(* from Proofs/TagRange.v, Proofs/PackedCount.v and Proofs/MergeSafe.v *)
Hypothesis Htag : forall len d t w used tag wt, 1 <= len <= LeafSafe.zlen d -> bytes d ->
  parse_tag_and_wiretype len d t w = (used, tag, wt) -> used <> 0 -> 0 <= tag < 4294967296 /\ 0 <= wt < 8.
Hypothesis Hcount : forall ty len d c0 okc c,
  count_packed_elements ty len d c0 = (okc, c) -> okc <> 0 -> 0 <= len -> len = Mem.zlen d -> bytes d -> len < 4294967296 ->
  0 <= c <= len.
Hypothesis Hpacked : forall f sm okc c vs, is_scalar (f_type f) = true ->
  bytes (sm_data sm) -> 0 <= sm_pref sm <= sm_len sm -> sm_len sm = Mem.zlen (sm_data sm) -> sm_len sm < 4294967296 ->
  count_packed_elements (type_code (f_type f)) (sm_len sm - sm_pref sm) (skipn (Z.to_nat (sm_pref sm)) (sm_data sm)) 0 = (okc, c) ->
  okc <> 0 -> parse_packed f sm = Ok vs ->
  Mem.zlen vs <= c /\ Forall (fun v => exists w, v = VWord w) vs.
Hypothesis Hpacked_err : forall f sm e, is_scalar (f_type f) = true -> parse_packed f sm = Err e -> e = EFail.
Hypothesis Hmerge : forall e l, shp e = true -> shp l = true -> m_desc e = m_desc l ->
  exists m, merge_messages E e l = Ok m /\ shp m = true /\ m_desc m = m_desc l.

Variable N : Z.
Hypothesis HN : N < 2147483648.

(* what is known about parsing embedded messages (induction hypothesis of the top-level theorem) *)
Variable usub : nat -> list Z -> res msg.
Hypothesis Husub : forall d' payload, bytes payload -> Mem.zlen payload < N -> (d' < length E)%nat ->
  okres (fun m' => shp m' = true /\ m_desc m' = d') (usub d' payload).

Variable d : nat.
Variable md : mdesc.
Hypothesis Hmd : nth_error E d = Some md.
Notation fs := (md_fields md).
Notation nun := (md_n_oneofs md).

Lemma Dmd : desc_ok (length E) md = true.
Proof. unfold env_ok in EO. rewrite forallb_forall in EO. apply EO. eapply nth_error_In; exact Hmd. Qed.

Lemma field_facts : forall f, In f fs ->
  field_ok nun f = true /\ 0 < f_id f < 536870912 /\
  (f_type f = TMessage -> (f_sub f < length E)%nat).
Proof.
  intros f Hin. destruct (desc_ok_fields _ _ Dmd f Hin) as (Hok & Hid & _). split; [exact Hok | split; [exact Hid|]].
  intros Ht. pose proof Dmd as D. unfold desc_ok in D. rewrite !andb_true_iff in D.
  destruct D as [[[[[[_ _] _] Hsub] _] _] _]. rewrite forallb_forall in Hsub. specialize (Hsub f Hin). rewrite Ht in Hsub.
  apply Nat.ltb_lt. exact Hsub.
Qed.

(* ---- one cell *)
Lemma cell_kind_scalar : forall f w, is_scalar (f_type f) = true -> cell_shape shp f (VWord w) = true.
Proof. intros f w H. unfold cell_shape. destruct (f_type f); try discriminate H; reflexivity. Qed.

Lemma parse_required_shape : forall f sm old mc,
  In f fs -> member_ok md sm -> sm_len sm < N ->
  (cell_shape shp f old = true \/ old = VWord 0) ->
  okres (fun v => cell_shape shp f v = true) (parse_required E usub f sm old mc).
Proof.
  intros f sm old mc Hin (HB & Hl & Hp & Hl1 & _) HlN Hold.
  destruct (field_facts f Hin) as (Hok & Hid & Hsub).
  unfold parse_required.
  destruct (f_type f) eqn:Et;
    try (eapply okres_bind; [apply dec_scalar_okres; reflexivity|]; intros w _ _; cbn [okres]; apply cell_kind_scalar; rewrite Et; reflexivity).
  - destruct (negb (sm_wt sm =? WT_LEN)); cbn [okres]; [reflexivity|]. unfold cell_shape. rewrite Et. reflexivity.
  - destruct (negb (sm_wt sm =? WT_LEN)); cbn [okres]; [reflexivity|].
    destruct (sm_len sm >? sm_pref sm); cbn [okres]; unfold cell_shape; rewrite Et; reflexivity.
  - destruct (negb (sm_wt sm =? WT_LEN)); cbn [okres]; [reflexivity|].
    assert (Hpl : Mem.zlen (skipn (Z.to_nat (sm_pref sm)) (sm_data sm)) < N) by (unfold Mem.zlen in *; rewrite skipn_length; lia).
    eapply okres_bind; [apply (Husub (f_sub f) _ (bytes_skipn _ _ HB) Hpl (Hsub eq_refl))|].
    intros sub _ (Hs & Hd). cbv beta.
    destruct mc; [|cbn [okres]; unfold cell_shape; rewrite Et, Hs, Hd, Nat.eqb_refl; reflexivity].
    assert (Hom : exists o, as_msg old = Ok o /\ match o with Some om => shp om = true /\ m_desc om = f_sub f | None => True end).
    { destruct Hold as [Hc | ->]; [|exists None; split; [reflexivity | exact I]].
      unfold cell_shape in Hc. rewrite Et in Hc. destruct old as [w| | |[om|]]; try discriminate Hc.
      - apply andb_true_iff in Hc. destruct Hc as [H1 H2]. apply Nat.eqb_eq in H2. exists (Some om). split; [reflexivity | auto].
      - exists None. split; [reflexivity | exact I]. }
    destruct Hom as (o & -> & Ho). cbn [bind].
    destruct o as [om|]; [|cbn [okres]; unfold cell_shape; rewrite Et, Hs, Hd, Nat.eqb_refl; reflexivity].
    destruct Ho as [Hos Hod].
    destruct (Hmerge om sub Hos Hs ltac:(congruence)) as (m & -> & Hms & Hmd'). cbn [bind okres].
    unfold cell_shape. rewrite Et, Hms. rewrite Hmd', Hd, Nat.eqb_refl. reflexivity.
Qed.

(* ---- the members the scan recorded *)
Variable Ms : list smember.
Hypothesis HMs : Forall (member_ok md) Ms.
Hypothesis HMsN : data_total Ms + Z.of_nat (length Ms) <= N.

Lemma data_total_in : forall ms sm, In sm ms -> Mem.zlen (sm_data sm) + 1 <= data_total ms + Z.of_nat (length ms).
Proof.
  induction ms as [|x t IH]; intros sm Hin; [contradiction|]. cbn [data_total length].
  assert (0 <= data_total t) by (clear; induction t as [|y t IH]; cbn [data_total]; unfold Mem.zlen in *; lia).
  destruct Hin as [->|Hin]; [unfold Mem.zlen; lia|]. specialize (IH sm Hin). unfold Mem.zlen in *. lia.
Qed.

Lemma member_len : forall sm, In sm Ms -> sm_len sm < N.
Proof.
  intros sm Hin. pose proof (proj1 (Forall_forall _ _) HMs) as HMs'. destruct (HMs' sm Hin) as (_ & Hl & _).
  pose proof (data_total_in Ms sm Hin). lia.
Qed.

Lemma mcnt_nonneg : forall sm, In sm Ms -> 0 <= mcnt md sm.
Proof.
  intros sm Hin. pose proof (proj1 (Forall_forall _ _) HMs) as HMs'.
  pose proof (mcnt_bound E md Htag Hcount sm (HMs' sm Hin) ltac:(pose proof (member_len sm Hin); lia)). lia.
Qed.

Definition slot_inv (done : list smember) (i : nat) (f : field) (s : slot) : Prop :=
  if label_eqb (f_label f) LRepeated
  then exists n arr, s = SRep n (total md i Ms) arr /\
         match arr with
         | None => n = 0 /\ total md i Ms = 0
         | Some l => n = Mem.zlen l /\ n <= total md i done /\ forallb (cell_shape shp f) l = true
         end
  else slot_shape shp nun f s = true.

Definition pinv (done : list smember) (m : msg) : Prop :=
  match m with
  | Msg d' slots unions unk =>
      d' = d /\ length slots = length fs /\
      (forall i f, nth_error fs i = Some f -> exists s, nth_error slots i = Some s /\ slot_inv done i f s) /\
      length unions = nun /\ unions_shape shp fs 0 unions = true
  end.

Lemma slot_inv_mono : forall done done' i f s,
  total md i done <= total md i done' -> slot_inv done i f s -> slot_inv done' i f s.
Proof.
  intros done done' i f s Hle H. unfold slot_inv in *. destruct (label_eqb (f_label f) LRepeated); [|exact H].
  destruct H as (n & arr & -> & Harr). exists n, arr. split; [reflexivity|].
  destruct arr as [l|]; [|exact Harr]. destruct Harr as (H1 & H2 & H3). repeat split; try assumption. lia.
Qed.

Lemma total_cons_le : forall sm done i, In sm Ms -> total md i done <= total md i (sm :: done).
Proof.
  intros sm done i Hin. cbn [total]. pose proof (mcnt_nonneg sm Hin).
  destruct (sm_field sm) as [j|]; [destruct (Nat.eqb i j)|]; lia.
Qed.

Lemma pinv_mono : forall sm done m, In sm Ms -> pinv done m -> pinv (sm :: done) m.
Proof.
  intros sm done [d' slots unions unk] Hin (H1 & H2 & H3 & H4 & H5). unfold pinv. repeat split; try assumption.
  intros i f Hn. destruct (H3 i f Hn) as (s & Hs & Hi). exists s. split; [exact Hs|].
  apply (slot_inv_mono done); [apply total_cons_le; exact Hin | exact Hi].
Qed.

(* replacing slot i *)
Lemma pinv_set_slot : forall done d' slots unions unk i f s',
  pinv done (Msg d' slots unions unk) -> nth_error fs i = Some f -> slot_inv done i f s' ->
  pinv done (Msg d' (set_nth slots i s') unions unk).
Proof.
  intros done d' slots unions unk i f s' (H1 & H2 & H3 & H4 & H5) Hn Hs. unfold pinv.
  split; [exact H1|]. split; [rewrite set_nth_len; exact H2|]. split; [|split; assumption].
  intros j g Hj. destruct (Nat.eq_dec i j) as [<-|Hne].
  - rewrite Hn in Hj. inversion Hj; subst g. exists s'. split; [|exact Hs].
    apply set_nth_at. rewrite H2. apply nth_error_Some. congruence.
  - destruct (H3 j g Hj) as (s & Hsj & Hij). exists s. split; [|exact Hij]. rewrite set_nth_other by exact Hne. exact Hsj.
Qed.

(* replacing the storage of a oneof *)
Lemma unions_shape_set : forall us g0 g cv,
  unions_shape shp fs g0 us = true -> (g < length us)%nat -> union_shape shp fs (g0 + g) cv = true ->
  unions_shape shp fs g0 (set_nth us g cv) = true.
Proof.
  induction us as [|x t IH]; intros g0 g cv H Hg Hc; [cbn in Hg; lia|].
  cbn [unions_shape] in H. fold (unions_shape shp fs) in H. apply andb_true_iff in H. destruct H as [Hx Ht].
  destruct g as [|g]; cbn [set_nth unions_shape]; fold (unions_shape shp fs).
  - replace (g0 + 0)%nat with g0 in Hc by lia. rewrite Hc, Ht. reflexivity.
  - rewrite Hx. cbn [andb]. apply IH; [exact Ht | cbn [length] in Hg; lia|].
    replace (S g0 + g)%nat with (g0 + S g)%nat by lia. exact Hc.
Qed.

Lemma unions_shape_nth : forall us g0 g cv,
  unions_shape shp fs g0 us = true -> nth_error us g = Some cv -> union_shape shp fs (g0 + g) cv = true.
Proof.
  induction us as [|x t IH]; intros g0 g cv H Hn; [destruct g; discriminate Hn|].
  cbn [unions_shape] in H. fold (unions_shape shp fs) in H. apply andb_true_iff in H. destruct H as [Hx Ht].
  destruct g as [|g]; cbn [nth_error] in Hn.
  - inversion Hn; subst. replace (g0 + 0)%nat with g0 by lia. exact Hx.
  - replace (g0 + S g)%nat with (S g0 + g)%nat by lia. exact (IH (S g0) g cv Ht Hn).
Qed.

Lemma union_member : forall f g v, In f fs -> f_quant f = QCase g -> f_oneof f = true ->
  cell_shape shp f v = true -> union_shape shp fs g (f_id f, v) = true.
Proof.
  intros f g v Hin Hq Ho Hc. unfold union_shape. apply orb_true_iff. right.
  apply existsb_exists. exists f. split; [exact Hin|]. cbn [fst snd]. rewrite Z.eqb_refl, Hq, Nat.eqb_refl, Ho, Hc. reflexivity.
Qed.

Lemma total_nonneg : forall done i, (forall x, In x done -> In x Ms) -> 0 <= total md i done.
Proof.
  induction done as [|x t IH]; intros i H; cbn [total]; [lia|].
  pose proof (mcnt_nonneg x (H x (or_introl eq_refl))). specialize (IH i (fun y Hy => H y (or_intror Hy))).
  destruct (sm_field x) as [j|]; [destruct (Nat.eqb i j)|]; lia.
Qed.

(* ---- one member *)
Lemma parse_member_step : forall sm done m,
  In sm Ms -> (forall x, In x done -> In x Ms) -> (forall i, total md i (sm :: done) <= total md i Ms) -> pinv done m ->
  okres (pinv (sm :: done)) (parse_member E usub md sm m).
Proof.
  intros sm done [d' slots unions unk] Hin Hdone Htot HP.
  pose proof HP as (Hd & Hlen & Hslots & Hun & Hus).
  assert (Hmok : member_ok md sm) by (exact (proj1 (Forall_forall _ _) HMs sm Hin)).
  pose proof (member_len sm Hin) as HlN.
  unfold parse_member.
  destruct (sm_field sm) as [i|] eqn:Ef.
  2:{ cbn [okres]. apply (pinv_mono sm done (Msg d' slots unions (unk ++ _)) Hin). unfold pinv in *. repeat split; assumption. }
  destruct Hmok as (HB & Hl & Hp & Hl1 & Hfield & Hpok).
  assert (Hmok : member_ok md sm) by (exact (proj1 (Forall_forall _ _) HMs sm Hin)).
  destruct (Hfield i Ef) as (f & Hn & Hid). rewrite Hn.
  destruct (Hslots i f Hn) as (s & Hs & Hsi). rewrite Hs.
  assert (Hinf : In f fs) by (eapply nth_error_In; exact Hn).
  destruct (field_facts f Hinf) as (Hfok & Hidr & Hsub).
  unfold slot_inv in Hsi.
  destruct (f_label f) eqn:El; cbn [label_eqb] in Hsi.
  - (* required *)
    destruct s as [h old|n0 c0 a0|g0];
      [|apply srep_shape in Hsi; rewrite El in Hsi; discriminate Hsi
       |destruct (sunion_shape _ _ _ _ Hsi) as (Hq' & _); unfold field_ok in Hfok; rewrite El, Hq' in Hfok; rewrite ?andb_false_r in Hfok; discriminate Hfok].
    destruct (sone_shape _ _ _ _ _ Hsi) as (Hl0 & Hq & Ho & Hc).
    eapply okres_bind; [apply (parse_required_shape f sm old true Hinf Hmok HlN (or_introl Hc))|].
    intros v _ Hv. cbn [okres]. apply (pinv_mono sm done _ Hin).
    apply (pinv_set_slot done d' slots unions unk i f _ HP Hn). unfold slot_inv. rewrite El. cbn [label_eqb].
    apply sone_shape_intro; assumption.
  - (* optional *)
    destruct (f_oneof f) eqn:Eo.
    + destruct s as [h old|n0 c0 a0|g];
        [destruct (sone_shape _ _ _ _ _ Hsi) as (_ & _ & Ho' & _); congruence
        |apply srep_shape in Hsi; rewrite El in Hsi; discriminate Hsi|].
      destruct (sunion_shape _ _ _ _ Hsi) as (Eq & _ & Hg).
      destruct (nth_error unions g) as [[case cell]|] eqn:Eu; [|apply nth_error_None in Eu; lia].
      pose proof (unions_shape_nth unions 0 g (case, cell) Hus Eu) as Hcs. cbn [plus] in Hcs.
      set (cell0 := if negb (case =? 0) && negb ((case =? sm_tag sm) && ftype_eqb (f_type f) TMessage)
                    then match find_field md case with None => Err EFail | Some _ => Ok (VWord 0) end else Ok cell).
      assert (Hc0 : okres (fun c0 => cell_shape shp f c0 = true \/ c0 = VWord 0) cell0).
      { unfold cell0. destruct (negb (case =? 0) && negb ((case =? sm_tag sm) && ftype_eqb (f_type f) TMessage)) eqn:Ec.
        - destruct (find_field md case); cbn [okres]; auto.
        - cbn [okres]. apply andb_false_iff in Ec. destruct Ec as [Ec|Ec].
          + apply negb_false_iff in Ec. apply Z.eqb_eq in Ec. subst case.
            (* unset: the storage is VWord 0 (no field has number 0) *)
            unfold union_shape in Hcs. cbn [fst snd] in Hcs. apply orb_true_iff in Hcs. destruct Hcs as [Hc|Hc].
            * apply andb_true_iff in Hc. destruct Hc as [_ Hc]. destruct cell as [w| | |]; try discriminate Hc. destruct w; try discriminate Hc. right. reflexivity.
            * apply existsb_exists in Hc. destruct Hc as (f0 & Hf0 & Hc). rewrite !andb_true_iff in Hc. destruct Hc as [[[Hc _] _] _].
              destruct (field_facts f0 Hf0) as (_ & Hr0 & _). lia.
          + apply negb_false_iff in Ec. apply andb_true_iff in Ec. destruct Ec as [Ec1 Ec2]. apply Z.eqb_eq in Ec1. subst case.
            (* the same member again: the storage holds this member's cell *)
            unfold union_shape in Hcs. cbn [fst snd] in Hcs. apply orb_true_iff in Hcs. destruct Hcs as [Hc|Hc].
            * apply andb_true_iff in Hc. destruct Hc as [Hc _]. lia.
            * apply existsb_exists in Hc. destruct Hc as (f0 & Hf0 & Hc). rewrite !andb_true_iff in Hc. destruct Hc as [[[Hc1 _] _] Hc4].
              apply Z.eqb_eq in Hc1.
              assert (f0 = f) by (eapply (Proofs.MergeSafe.field_unique E md Dmd); [exact Hf0 | exact Hinf | lia]). subst f0. left. exact Hc4. }
      fold cell0. eapply okres_bind; [exact Hc0|]. intros c0 _ Hc0'.
      eapply okres_bind; [apply (parse_required_shape f sm c0 true Hinf Hmok HlN Hc0')|].
      intros v _ Hv. cbn [okres]. apply (pinv_mono sm done _ Hin). unfold pinv. repeat split; try assumption.
      * rewrite set_nth_len. exact Hun.
      * apply unions_shape_set; [exact Hus | lia|]. cbn [plus]. rewrite <- Hid. apply union_member; assumption.
    + destruct s as [h old|n0 c0 a0|g];
        [|apply srep_shape in Hsi; rewrite El in Hsi; discriminate Hsi
         |destruct (sunion_shape _ _ _ _ Hsi) as (_ & Ho' & _); congruence].
      destruct (sone_shape _ _ _ _ _ Hsi) as (Hl0 & Hq & Ho & Hc).
      eapply okres_bind; [apply (parse_required_shape f sm old true Hinf Hmok HlN (or_introl Hc))|].
      intros v _ Hv. cbn [okres]. apply (pinv_mono sm done _ Hin).
      apply (pinv_set_slot done d' slots unions unk i f _ HP Hn). unfold slot_inv. rewrite El. cbn [label_eqb].
      apply sone_shape_intro; assumption.
  - (* repeated *)
    destruct Hsi as (n & arr & -> & Harr).
    assert (Hscal : packed_arrival f (sm_wt sm) = true -> is_scalar (f_type f) = true).
    { intros Hpa. unfold packed_arrival in Hpa. apply andb_true_iff in Hpa. destruct Hpa as [_ Hpa]. apply orb_true_iff in Hpa.
      destruct Hpa as [Hpk|Hpk].
      - unfold field_ok in Hfok. rewrite Hpk in Hfok. rewrite !andb_true_iff in Hfok. destruct Hfok as [[_ [_ Hsc]] _]. exact Hsc.
      - unfold is_packable in Hpk. unfold is_scalar. destruct (f_type f); try reflexivity; cbn in Hpk; discriminate Hpk. }
    assert (Hmc : mcnt md sm = if packed_arrival f (sm_wt sm)
                               then snd (count_packed_elements (type_code (f_type f)) (sm_len sm - sm_pref sm) (skipn (Z.to_nat (sm_pref sm)) (sm_data sm)) 0)
                               else 1).
    { unfold mcnt. rewrite Ef, Hn, El. reflexivity. }
    assert (Htoti : total md i (sm :: done) = mcnt md sm + total md i done).
    { cbn [total]. rewrite Ef, Nat.eqb_refl. reflexivity. }
    specialize (Htot i). rewrite Htoti in Htot.
    (* the elements this member contributes *)
    assert (Happ : forall vs, Mem.zlen vs <= mcnt md sm -> forallb (cell_shape shp f) vs = true ->
              okres (pinv (sm :: done)) (do s' <- append_elems (SRep n (total md i Ms) arr) vs;
                                         Ok (Msg d' (set_nth slots i s') unions unk))).
    { intros vs Hvl Hvs. unfold append_elems. destruct arr as [l|].
      - destruct Harr as (Hnl & Hnd & Hcl).
        destruct (Z.leb_spec (n + Mem.zlen vs) (total md i Ms)); [|lia]. cbn [bind okres].
        apply (pinv_set_slot (sm :: done) d' slots unions unk i f _ (pinv_mono sm done _ Hin HP) Hn).
        unfold slot_inv. rewrite El. cbn [label_eqb]. exists (n + Mem.zlen vs), (Some (l ++ vs)). split; [reflexivity|].
        split; [unfold Mem.zlen in *; rewrite app_length; lia|]. split; [rewrite Htoti; lia|].
        rewrite forallb_app, Hcl, Hvs. reflexivity.
      - destruct Harr as (Hn0 & Ht0). assert (Hv0 : Mem.zlen vs = 0) by (pose proof (mcnt_nonneg sm Hin); pose proof (total_nonneg done i Hdone); unfold Mem.zlen in *; lia).
        rewrite Hv0. cbn [Z.eqb bind okres].
        replace (set_nth slots i (SRep n (total md i Ms) None)) with slots.
        + apply (pinv_mono sm done _ Hin). exact HP.
        + symmetry. apply Proofs.ScanRecs.set_nth_same. exact Hs. }
    destruct (packed_arrival f (sm_wt sm)) eqn:Epa.
    + destruct (parse_packed f sm) as [vs|e] eqn:Epp; cbn [bind].
      * destruct (count_packed_elements (type_code (f_type f)) (sm_len sm - sm_pref sm) (skipn (Z.to_nat (sm_pref sm)) (sm_data sm)) 0) as [okc c] eqn:Ec.
        pose proof (Hpok i f Ef Hn ltac:(rewrite El; reflexivity) Epa) as Hok'. rewrite Ec in Hok'. cbn [fst] in Hok'.
        destruct (Hpacked f sm okc c vs (Hscal eq_refl) HB Hp Hl ltac:(lia) Ec Hok' Epp) as [Hvl Hvw].
        apply Happ; [rewrite Hmc; cbn [snd]; exact Hvl|].
        apply forallb_forall. intros v Hv. rewrite Forall_forall in Hvw. destruct (Hvw v Hv) as (w & ->).
        apply cell_kind_scalar. exact (Hscal eq_refl).
      * cbn [okres]. exact (Hpacked_err f sm e (Hscal eq_refl) Epp).
    + eapply okres_bind; [apply (parse_required_shape f sm (VWord 0) false Hinf Hmok HlN (or_intror eq_refl))|].
      intros v _ Hv. apply Happ; [rewrite Hmc; unfold Mem.zlen; cbn; lia | cbn [forallb]; rewrite Hv; reflexivity].
  - (* implicit presence: as optional *)
    destruct (f_oneof f) eqn:Eo.
    + destruct s as [h old|n0 c0 a0|g];
        [destruct (sone_shape _ _ _ _ _ Hsi) as (_ & _ & Ho' & _); congruence
        |apply srep_shape in Hsi; rewrite El in Hsi; discriminate Hsi|].
      destruct (sunion_shape _ _ _ _ Hsi) as (Eq & _ & Hg).
      destruct (nth_error unions g) as [[case cell]|] eqn:Eu; [|apply nth_error_None in Eu; lia].
      pose proof (unions_shape_nth unions 0 g (case, cell) Hus Eu) as Hcs. cbn [plus] in Hcs.
      set (cell0 := if negb (case =? 0) && negb ((case =? sm_tag sm) && ftype_eqb (f_type f) TMessage)
                    then match find_field md case with None => Err EFail | Some _ => Ok (VWord 0) end else Ok cell).
      assert (Hc0 : okres (fun c0 => cell_shape shp f c0 = true \/ c0 = VWord 0) cell0).
      { unfold cell0. destruct (negb (case =? 0) && negb ((case =? sm_tag sm) && ftype_eqb (f_type f) TMessage)) eqn:Ec.
        - destruct (find_field md case); cbn [okres]; auto.
        - cbn [okres]. apply andb_false_iff in Ec. destruct Ec as [Ec|Ec].
          + apply negb_false_iff in Ec. apply Z.eqb_eq in Ec. subst case.
            unfold union_shape in Hcs. cbn [fst snd] in Hcs. apply orb_true_iff in Hcs. destruct Hcs as [Hc|Hc].
            * apply andb_true_iff in Hc. destruct Hc as [_ Hc]. destruct cell as [w| | |]; try discriminate Hc. destruct w; try discriminate Hc. right. reflexivity.
            * apply existsb_exists in Hc. destruct Hc as (f0 & Hf0 & Hc). rewrite !andb_true_iff in Hc. destruct Hc as [[[Hc _] _] _].
              destruct (field_facts f0 Hf0) as (_ & Hr0 & _). lia.
          + apply negb_false_iff in Ec. apply andb_true_iff in Ec. destruct Ec as [Ec1 Ec2]. apply Z.eqb_eq in Ec1. subst case.
            unfold union_shape in Hcs. cbn [fst snd] in Hcs. apply orb_true_iff in Hcs. destruct Hcs as [Hc|Hc].
            * apply andb_true_iff in Hc. destruct Hc as [Hc _]. lia.
            * apply existsb_exists in Hc. destruct Hc as (f0 & Hf0 & Hc). rewrite !andb_true_iff in Hc. destruct Hc as [[[Hc1 _] _] Hc4].
              apply Z.eqb_eq in Hc1.
              assert (f0 = f) by (eapply (Proofs.MergeSafe.field_unique E md Dmd); [exact Hf0 | exact Hinf | lia]). subst f0. left. exact Hc4. }
      fold cell0. eapply okres_bind; [exact Hc0|]. intros c0 _ Hc0'.
      eapply okres_bind; [apply (parse_required_shape f sm c0 true Hinf Hmok HlN Hc0')|].
      intros v _ Hv. cbn [okres]. apply (pinv_mono sm done _ Hin). unfold pinv. repeat split; try assumption.
      * rewrite set_nth_len. exact Hun.
      * apply unions_shape_set; [exact Hus | lia|]. cbn [plus]. rewrite <- Hid. apply union_member; assumption.
    + destruct s as [h old|n0 c0 a0|g];
        [|apply srep_shape in Hsi; rewrite El in Hsi; discriminate Hsi
         |destruct (sunion_shape _ _ _ _ Hsi) as (_ & Ho' & _); congruence].
      destruct (sone_shape _ _ _ _ _ Hsi) as (Hl0 & Hq & Ho & Hc).
      eapply okres_bind; [apply (parse_required_shape f sm old true Hinf Hmok HlN (or_introl Hc))|].
      intros v _ Hv. cbn [okres]. apply (pinv_mono sm done _ Hin).
      apply (pinv_set_slot done d' slots unions unk i f _ HP Hn). unfold slot_inv. rewrite El. cbn [label_eqb].
      apply sone_shape_intro; assumption.
Qed.

(* ---- all members, in arrival order *)
Lemma parse_members_safe : forall rest done m,
  rev done ++ rest = rev Ms -> pinv done m ->
  okres (pinv (rev rest ++ done)) (parse_members E usub md rest m).
Proof.
  induction rest as [|sm t IH]; intros done m Hsplit HP; cbn [parse_members rev app].
  - cbn [okres]. exact HP.
  - assert (HinR : forall x, In x (rev done ++ sm :: t) -> In x Ms).
    { intros x Hx. rewrite Hsplit in Hx. apply in_rev. exact Hx. }
    assert (Hin : In sm Ms) by (apply HinR; apply in_or_app; right; left; reflexivity).
    assert (Hdone : forall x, In x done -> In x Ms).
    { intros x Hx. apply HinR. apply in_or_app. left. apply in_rev in Hx. exact Hx. }
    assert (Ht : forall x, In x t -> In x Ms).
    { intros x Hx. apply HinR. apply in_or_app. right. right. exact Hx. }
    assert (Htot : forall i, total md i (sm :: done) <= total md i Ms).
    { intros i. rewrite <- (total_rev md i Ms), <- Hsplit, total_app, total_rev. cbn [total].
      pose proof (total_nonneg t i Ht). lia. }
    eapply okres_bind; [exact (parse_member_step sm done m Hin Hdone Htot HP)|].
    intros m' _ HP'. replace ((rev t ++ [sm]) ++ done) with (rev t ++ sm :: done) by (rewrite <- app_assoc; reflexivity).
    apply IH; [cbn [rev]; rewrite <- app_assoc; exact Hsplit | exact HP'].
Qed.

Lemma pinv_shape : forall m, pinv Ms m -> shp m = true /\ m_desc m = d.
Proof.
  intros [d' slots unions unk] (Hd & Hlen & Hslots & Hun & Hus). subst d'. split; [|reflexivity].
  cbn [shape_msg]. rewrite Hmd. rewrite Hun, Nat.eqb_refl, Hus. rewrite !andb_true_r.
  apply slots_shape_pointwise; [exact Hlen|]. intros i f s Hf Hs.
  destruct (Hslots i f Hf) as (s' & Hs' & Hi). pose proof (eq_trans (eq_sym Hs) Hs') as Heq. inversion Heq; subst s'.
  unfold slot_inv in Hi. destruct (label_eqb (f_label f) LRepeated) eqn:Er; [|exact Hi].
  destruct Hi as (n & arr & -> & Harr). unfold slot_shape. rewrite Er. destruct arr as [l|].
  - destruct Harr as (H1 & H2 & H3). rewrite H3. subst n. rewrite Z.eqb_refl. cbn [andb]. rewrite andb_true_r.
    apply Z.leb_le. pose proof (proj1 (Forall_forall _ _) HMs) as HMs'.
    assert (total md i Ms <= total md i Ms) by lia. lia.
  - destruct Harr as [-> _]. reflexivity.
Qed.

(* ---- allocation after the scan *)
Lemma alloc_pinv : forall slots bm, scan_slots md slots Ms ->
  okres (fun ss => pinv [] (Msg d ss (repeat (0, VWord 0) nun) [])) (alloc_slots fs bm slots).
Proof.
  intros slots bm (HSl & HS).
  eapply okres_impl; [apply (alloc_slots_okres fs bm slots HSl)|].
  - intros i f s Hf Hs Hr. rewrite (HS i f Hf), Hr in Hs. inversion Hs. eauto.
  - intros ss (Hl & Hss). unfold pinv. split; [reflexivity|]. split; [exact Hl|].
    split; [|split; [apply repeat_length | apply unions_shape_repeat]].
    intros i f Hf. destruct (Hss i f _ Hf (HS i f Hf)) as (s' & Hs' & Ha). exists s'. split; [exact Hs'|].
    assert (Hinf : In f fs) by (eapply nth_error_In; exact Hf).
    destruct (field_facts f Hinf) as (Hfok & _ & _).
    unfold slot_inv. destruct (label_eqb (f_label f) LRepeated) eqn:Er.
    + assert (El : f_label f = LRepeated) by (destruct (f_label f); try discriminate Er; reflexivity).
      unfold alloc_slot in Ha. rewrite El in Ha.
      assert (Hdt : data_total Ms < 4294967296).
      { assert (0 <= Z.of_nat (length Ms)) by lia. lia. }
      pose proof (total_bound E md Htag Hcount Ms i HMs Hdt) as Hb.
      destruct (Z.eqb_spec (total md i Ms) 0) as [Hz|Hnz]; inversion Ha; subst s'.
      * exists (total md i Ms), None. rewrite Hz. auto.
      * exists 0, (Some []). rewrite u32_small by lia. split; [reflexivity|]. cbn [total forallb]. unfold Mem.zlen. cbn [length]. repeat split; lia.
    + assert (s' = init_slot f).
      { unfold alloc_slot in Ha. destruct (f_label f); try discriminate Er.
        - destruct (f_default f); [|destruct (nth i bm false)]; inversion Ha; reflexivity.
        - inversion Ha; reflexivity.
        - inversion Ha; reflexivity. }
      subst s'. apply init_slot_shape; assumption.
Qed.

Lemma parse_all : forall bm slots, scan_slots md slots Ms ->
  okres (fun m => shp m = true /\ m_desc m = d)
        (bind (alloc_slots fs bm slots)
              (fun ss => parse_members E usub md (rev Ms) (Msg d ss (repeat (0, VWord 0) nun) []))).
Proof.
  intros bm slots HS. eapply okres_bind; [apply (alloc_pinv slots bm HS)|].
  intros ss _ HP. cbv beta.
  eapply okres_impl; [apply (parse_members_safe (rev Ms) [] _ ltac:(reflexivity) HP)|].
  intros m Hm. rewrite rev_involutive, app_nil_r in Hm. apply pinv_shape. exact Hm.
Qed.

End PS.
